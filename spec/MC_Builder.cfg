SPECIFICATION Spec
INVARIANT NoDupCores
INVARIANT WellFormedBuild
INVARIANT DoneIsLALR
INVARIANT NormalizeIsIsomorphism
PROPERTY Monotone
VIEW BView
CHECK_DEADLOCK FALSE
