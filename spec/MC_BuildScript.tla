-------------------------- MODULE MC_BuildScript --------------------------
(* Exhaustive exploration of BuildScript.tla with four versions (1 and 2 differ in layout only, 3 is another grammar,
   4 is rejected by generate).  Every Build transition is printed as an EDGE line - source state, predicted outcome and
   predicted parser file - and replayed by the driver on the real generate / get_grammar_hash with concrete texts
   (lib/header.py).  Freshness.tla is the first, idealised version of this protocol (no failing builds, no damaged
   parser files); it is kept because its invariant is the one-line statement of what C15 is for. *)
EXTENDS BuildScript, TLC, Json
MCVersions == {1, 2, 3, 4}
MCInvalid == {4}
Edge == PrintT(<<"EDGE", ToJson([gram |-> gram, parser |-> parser, outcome |-> last', to |-> parser'])>>)
Next == (\E v \in Versions : Edit(v)) \/ (\E p \in Files : Replace(p)) \/ (Build /\ Edge)
Spec == BSInit /\ [][Next]_bsvars
=============================================================================
