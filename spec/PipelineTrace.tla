--------------------------- MODULE PipelineTrace ---------------------------
(***************************************************************************)
(* Trace validation (DESIGN.md 4 (B)): events recorded from the REAL       *)
(* automaton construction and table filler (feature-guarded hooks in       *)
(* validated_ast_to_machine, first_set_map, machine_to_table) must be      *)
(* explained, line by line, by the actions of Builder.tla and              *)
(* TableFill.tla with the logged fields bound to the specification's       *)
(* variables.                                                              *)
(*                                                                         *)
(* The trace file (environment variable TRACE, ND-JSON) holds many         *)
(* grammars one after the other; each starts with a "grammar" event.       *)
(*   grammar  g                          reset; Builder starts             *)
(*   first_pass changed sets             one pass of FirstSets!RunPass     *)
(*   first    sets: [n, ts, eps]         FIRST/nullable as computed by     *)
(*                                       the code = Cfg!First/Nullable     *)
(*   pop      i                          Builder!Pop                       *)
(*   target   from sym to new grew items Builder!Target(sym)               *)
(*   machine  m                          Builder!Finish; m is a renumbering*)
(*                                       of the built automaton; TableFill *)
(*                                       loads it                          *)
(*   scan     state item                 TableFill!ScanItem(item)          *)
(*   set_action state qt act outcome     (bookkeeping for the preceding    *)
(*                                       scan: what it asked for and what  *)
(*                                       happened)                         *)
(*   fill     state qt                   TableFill!FillAction              *)
(*   gfill    state nt                   TableFill!FillGoto                *)
(*   table    t                          TableFill!FillDone; t = the table *)
(*   conflict state items                the reported TableConflict payload*)
(***************************************************************************)
EXTENDS Builder, TableFill, FirstSets, Json, IOUtils

Rec == ndJsonDeserialize(IOEnv.TRACE)

VARIABLES l,
          fm,       \* FIRST map after the passes seen so far (FirstSets.tla's fmap)
          flast     \* did the last pass seen change anything
allvars == <<bvars, tvars, fvars, l, fm, flast>>

ItemOfT(t) == Item(t[1], t[2], t[3])
GrammarOfT(r) == [nts |-> SeqRange(r.nts), ts |-> SeqRange(r.ts), start |-> r.start, rules |-> r.rules]
MachineOfT(m) == [start |-> m.start,
                  states |-> [i \in DOMAIN m.states |-> { ItemOfT(m.states[i][k]) : k \in DOMAIN m.states[i] }],
                  trans |-> SeqRange(m.trans)]

IsEvent(e) == l <= Len(Rec) /\ Rec[l].ev = e /\ l' = l + 1

TFIdle ==
  /\ tg = NoGrammar /\ phase = "idle"
  /\ tctx = NoCtx /\ mach = [start |-> 0, states |-> <<>>, trans |-> {}]
  /\ spos = 0 /\ rem = {} /\ cells = Empty /\ gotos = Empty /\ conflict = NoConflict
  /\ tabA = Empty /\ tabG = Empty /\ wrA = {} /\ wrG = {} /\ tls = {}
TFIdle1 ==
  /\ tg' = GrammarOfT(Rec[l].g) /\ phase' = "init"
  /\ tctx' = NoCtx /\ mach' = [start |-> 0, states |-> <<>>, trans |-> {}]
  /\ spos' = 0 /\ rem' = {} /\ cells' = Empty /\ gotos' = Empty /\ conflict' = NoConflict
  /\ tabA' = Empty /\ tabG' = Empty /\ wrA' = {} /\ wrG' = {} /\ tls' = {}

FDummy == fg = NoGrammar /\ fmap = <<>> /\ frule = 0 /\ fchanged = FALSE /\ fpasses = 0 /\ fdone = FALSE
TInit ==
  /\ l = 1 /\ TLCSet(1, 1) /\ FDummy /\ fm = <<>> /\ flast = TRUE
  /\ g = NoGrammar /\ ph = "idle" /\ ctx = NoCtx /\ states = <<>> /\ trans = {} /\ queue = <<>> /\ cur = -1 /\ pending = {}
  /\ TFIdle

\* a new case: whatever state the previous one ended in, start over with this grammar
SetsAsMap(sets) == [n \in { sets[k].n : k \in DOMAIN sets } |->
                       LET e == sets[CHOOSE k \in DOMAIN sets : sets[k].n = n] IN [ts |-> SeqRange(e.ts), eps |-> e.eps]]
\* one pass of the real iteration is one pass of FirstSets.tla: same resulting map, same "changed" verdict
TFirstPass ==
  /\ IsEvent("first_pass") /\ ph = "start"
  /\ LET pr == RunPass(g, fm) IN
       /\ pr.changed = Rec[l].changed
       /\ pr.map = SetsAsMap(Rec[l].sets)
       /\ fm' = pr.map /\ flast' = pr.changed
  /\ UNCHANGED <<bvars, tvars, fvars>>

TGrammar ==
  /\ IsEvent("grammar")
  /\ g' = GrammarOfT(Rec[l].g) /\ ph' = "start"
  /\ ctx' = NoCtx /\ states' = <<>> /\ trans' = {} /\ queue' = <<>> /\ cur' = -1 /\ pending' = {}
  /\ fm' = [n \in g'.nts |-> EmptyEntry] /\ flast' = TRUE /\ UNCHANGED fvars
  /\ TFIdle1

\* the FIRST sets the code computed are the least fixed point of Cfg.tla
TFirst ==
  /\ IsEvent("first")
  /\ ~flast                     \* the iteration stopped after a pass that changed nothing
  /\ fm = SetsAsMap(Rec[l].sets)
  /\ UNCHANGED <<fvars, fm, flast>>
  /\ Start
  /\ LET sets == Rec[l].sets IN
       /\ { sets[k].n : k \in DOMAIN sets } = g.nts
       /\ \A k \in DOMAIN sets : /\ SeqRange(sets[k].ts) = ctx'.F[sets[k].n]
                                  /\ sets[k].eps = (sets[k].n \in ctx'.NL)
  /\ UNCHANGED tvars

TPop ==
  /\ UNCHANGED <<fvars, fm, flast>>
  /\ IsEvent("pop")
  /\ \E k \in DOMAIN queue :
        /\ queue[k] = Rec[l].i
        /\ \A j \in 1..(k - 1) : queue[j] # Rec[l].i
        /\ Pop(k)
  /\ UNCHANGED tvars

TTarget ==
  /\ UNCHANGED <<fvars, fm, flast>>
  /\ IsEvent("target")
  /\ LET r == Rec[l] IN
       /\ cur = r.from
       /\ Target(r.sym)
       /\ r.new = (Len(states') = Len(states) + 1)
       /\ r.to \in 0..(Len(states') - 1)
       /\ <<r.from, r.sym, r.to>> \in trans'
       /\ states'[r.to + 1] = { ItemOfT(r.items[k]) : k \in DOMAIN r.items }
       /\ r.grew = (~r.new /\ states'[r.to + 1] # states[r.to + 1])
  /\ UNCHANGED tvars

\* the automaton handed to the table filler is a renumbering of what the builder built
TMachine ==
  /\ UNCHANGED <<fvars, fm, flast>>
  /\ IsEvent("machine")
  /\ Finish
  /\ LET M == MachineOfT(Rec[l].m)
         n == Len(states)
         perm == [i \in 0..(n - 1) |-> (CHOOSE k \in DOMAIN M.states : M.states[k] = states[i + 1]) - 1]
     IN /\ Len(M.states) = n
        /\ { M.states[k] : k \in DOMAIN M.states } = { states[k] : k \in DOMAIN states }
        /\ M = Normalize(AsMachine, perm)
        /\ TFLoad(M)

TScan ==
  /\ UNCHANGED <<fvars, fm, flast>>
  /\ IsEvent("scan")
  /\ Rec[l].state = spos
  /\ ScanItem(ItemOfT(Rec[l].item))
  /\ UNCHANGED bvars

\* set_action(state, qt, act) was called for the item just scanned: it is what the spec says the item wants,
\* and the outcome (0 new, 1 same action present, 2 conflict) is the one the spec reached
TSetAction ==
  /\ UNCHANGED <<fvars, fm, flast>>
  /\ IsEvent("set_action")
  /\ l > 1 /\ Rec[l - 1].ev = "scan"
  /\ LET r == Rec[l] it == ItemOfT(Rec[l - 1].item) key == <<r.state, r.qt>> IN
       /\ r.state = Rec[l - 1].state
       /\ Wanted(r.state, it) = { <<r.qt, r.act>> }
       /\ CASE r.outcome = 0 -> phase # "conflict" /\ key \in DOMAIN cells /\ cells[key] = [item |-> it, act |-> r.act]
            [] r.outcome = 1 -> phase # "conflict" /\ key \in DOMAIN cells /\ cells[key].act = r.act
            [] r.outcome = 2 -> phase = "conflict" /\ conflict.state = r.state /\ conflict.items[2] = it
  /\ UNCHANGED <<bvars, tvars>>

TFill ==
  /\ UNCHANGED <<fvars, fm, flast>>
  /\ IsEvent("fill")
  /\ FillAction(<<Rec[l].state, Rec[l].qt>>)
  /\ UNCHANGED bvars
TGotos ==   \* add_gotos_to_table has no event of its own: it happens before the first fill / the table event
  /\ UNCHANGED <<fvars, fm, flast>>
  /\ l <= Len(Rec) /\ Rec[l].ev \in {"fill", "gfill", "table"} /\ phase = "gotos"
  /\ AddGotos /\ UNCHANGED <<bvars, l>>
TGFill ==
  /\ UNCHANGED <<fvars, fm, flast>>
  /\ IsEvent("gfill")
  /\ FillGoto(<<Rec[l].state, Rec[l].nt>>)
  /\ UNCHANGED bvars
TTable ==
  /\ UNCHANGED <<fvars, fm, flast>>
  /\ IsEvent("table")
  /\ FillDone
  /\ LET t == Rec[l].t qts == t.ts \o <<EOFSYM>> IN
       /\ t.start = mach.start
       /\ SeqRange(t.ts) = tg.ts /\ SeqRange(t.nts) = tg.nts
       /\ Len(t.action) = NStatesM /\ Len(t.goto) = NStatesM
       /\ \A s \in 1..NStatesM :
            /\ \A k \in DOMAIN qts : t.action[s][k] = tabA[<<s - 1, qts[k]>>]
            /\ \A k \in DOMAIN t.nts : t.goto[s][k] = tabG[<<s - 1, t.nts[k]>>]
  /\ UNCHANGED bvars
TConflict ==
  /\ UNCHANGED <<fvars, fm, flast>>
  /\ IsEvent("conflict")
  /\ phase = "conflict"
  /\ conflict.state = Rec[l].state
  /\ conflict.items = << ItemOfT(Rec[l].items[1]), ItemOfT(Rec[l].items[2]) >>
  /\ UNCHANGED <<bvars, tvars>>

TNext == TGrammar \/ TFirstPass \/ TFirst \/ TPop \/ TTarget \/ TMachine \/ TScan \/ TSetAction
         \/ TGotos \/ TFill \/ TGFill \/ TTable \/ TConflict
TSpec == TInit /\ [][TNext]_allvars

\* the design-level invariants are evaluated in every state of the real execution
TInv == /\ NoDupCores
        /\ (phase \in {"scan", "gotos", "fill", "ok", "conflict"} => LookupsDefined /\ WitnessGenuine)

\* accepted iff every line was consumed (TGotos is the only step that does not consume a line; at most one per grammar)
Accepted ==
  IF TLCGet(1) = Len(Rec) + 1 THEN PrintT(<<"TRACE-ACCEPTED", Len(Rec)>>)
  ELSE PrintT(<<"TRACE-REJECTED", TLCGet(1), ToJson(Rec[TLCGet(1)])>>) /\ FALSE
\* a CONSTRAINT that records the highest l reached (needs -workers 1)
Track == TLCSet(1, IF TLCGet(1) > l THEN TLCGet(1) ELSE l)
=============================================================================
