------------------------------- MODULE Cfg -------------------------------
(***************************************************************************)
(* Context-free grammars and what "the language of a grammar" MEANS.       *)
(* Nothing in this module knows about parsing technology: languages,       *)
(* derivation trees and viable prefixes are defined as least fixed points  *)
(* over the productions.  These operators are the oracles for C01, C02 and *)
(* C03.                                                                    *)
(*                                                                         *)
(* A grammar is a record [nts, ts, start, rules]:                          *)
(*   nts, ts : disjoint sets of symbols (strings; terminals are written    *)
(*             with a leading "$", the bare string "$" is end of input),   *)
(*   start   : a member of nts,                                            *)
(*   rules   : a sequence of [lhs, rhs]; the index in the sequence is the  *)
(*             rule number (1-based; 0 is reserved for the augmented rule  *)
(*             S' -> start used by LR1.tla).                               *)
(* One rule = one struct or one enum variant of the Kiki file, its         *)
(* right-hand side being the declared field symbols in order ("_" fields   *)
(* included).                                                              *)
(***************************************************************************)
EXTENDS Naturals, Sequences, FiniteSets

EOFSYM == "$"

RulesOf(G, A) == { i \in DOMAIN G.rules : G.rules[i].lhs = A }
IsTerminal(G, x) == x \in G.ts
SeqRange(s) == { s[i] : i \in DOMAIN s }

WellFormed(G) ==
  /\ G.nts \cap G.ts = {}
  /\ EOFSYM \notin G.ts \cup G.nts
  /\ G.start \in G.nts
  /\ \A i \in DOMAIN G.rules :
        /\ G.rules[i].lhs \in G.nts
        /\ SeqRange(G.rules[i].rhs) \subseteq G.nts \cup G.ts

(***************************************************************************)
(* Nullable nonterminals, FIRST sets, productive and reachable symbols.    *)
(***************************************************************************)
RECURSIVE NullableLFP(_, _)
NullableLFP(G, S) ==
  LET S2 == S \cup { G.rules[i].lhs : i \in { j \in DOMAIN G.rules :
                         \A k \in DOMAIN G.rules[j].rhs : G.rules[j].rhs[k] \in S } }
  IN IF S2 = S THEN S ELSE NullableLFP(G, S2)
Nullable(G) == NullableLFP(G, {})

\* FIRST of a symbol sequence, given a map F (nonterminal -> set of terminals) and the nullable set
RECURSIVE FirstSeqT(_, _, _, _)
FirstSeqT(G, F, NL, seq) ==
  IF seq = <<>> THEN {}
  ELSE LET x == Head(seq) IN
       IF x \in G.ts THEN {x}
       ELSE F[x] \cup (IF x \in NL THEN FirstSeqT(G, F, NL, Tail(seq)) ELSE {})
SeqNullable(G, NL, seq) == \A k \in DOMAIN seq : seq[k] \in NL

RECURSIVE FirstLFP(_, _, _)
FirstLFP(G, NL, F) ==
  LET F2 == [n \in G.nts |-> F[n] \cup UNION { FirstSeqT(G, F, NL, G.rules[i].rhs) : i \in RulesOf(G, n) }]
  IN IF F2 = F THEN F ELSE FirstLFP(G, NL, F2)
First(G) == FirstLFP(G, Nullable(G), [n \in G.nts |-> {}])

RECURSIVE ProductiveLFP(_, _)
ProductiveLFP(G, S) ==
  LET S2 == S \cup { G.rules[i].lhs : i \in { j \in DOMAIN G.rules :
                        \A k \in DOMAIN G.rules[j].rhs : G.rules[j].rhs[k] \in S \cup G.ts } }
  IN IF S2 = S THEN S ELSE ProductiveLFP(G, S2)
Productive(G) == ProductiveLFP(G, {})
AllProductive(G) == G.nts \subseteq Productive(G)

RECURSIVE ReachableLFP(_, _)
ReachableLFP(G, S) ==
  LET S2 == S \cup UNION { SeqRange(G.rules[i].rhs) \cap G.nts : i \in { j \in DOMAIN G.rules : G.rules[j].lhs \in S } }
  IN IF S2 = S THEN S ELSE ReachableLFP(G, S2)
Reachable(G) == ReachableLFP(G, {G.start})

(***************************************************************************)
(* Lang(G, n): the terminal strings of length <= n derivable from the      *)
(* start symbol.  Least fixed point of "concatenate the languages of the   *)
(* right-hand side symbols, cap at n".                                     *)
(***************************************************************************)
RECURSIVE ConcatAll(_, _, _, _)
ConcatAll(G, L, seq, n) ==
  IF seq = <<>> THEN {<<>>}
  ELSE LET hd == IF Head(seq) \in G.ts THEN {<<Head(seq)>>} ELSE L[Head(seq)]
           tl == ConcatAll(G, L, Tail(seq), n)
       IN { x \in { u \o v : u \in hd, v \in tl } : Len(x) <= n }
RECURSIVE LangLFP(_, _, _)
LangLFP(G, L, n) ==
  LET L2 == [A \in G.nts |-> L[A] \cup UNION { ConcatAll(G, L, G.rules[i].rhs, n) : i \in RulesOf(G, A) }]
  IN IF L2 = L THEN L ELSE LangLFP(G, L2, n)
LangMap(G, n) == LangLFP(G, [A \in G.nts |-> {}], n)
Lang(G, n) == LangMap(G, n)[G.start]

(***************************************************************************)
(* Derivation trees.  A tree is a leaf [leaf |-> TRUE, sym, pos] (the      *)
(* token of kind sym read at input position pos) or an inner node          *)
(* [leaf |-> FALSE, rule, kids].  Because TLC compares values              *)
(* structurally only when they have the same shape, both kinds carry all   *)
(* five fields.                                                            *)
(***************************************************************************)
Leaf(sym, pos) == [leaf |-> TRUE, sym |-> sym, pos |-> pos, rule |-> 0, kids |-> <<>>]
Node(r, kids)  == [leaf |-> FALSE, sym |-> "", pos |-> 0, rule |-> r, kids |-> kids]

RootSym(G, t) == IF t.leaf THEN t.sym ELSE G.rules[t.rule].lhs

RECURSIVE IsTreeFor(_, _)
IsTreeFor(G, t) ==
  IF t.leaf THEN t.sym \in G.ts
  ELSE /\ t.rule \in DOMAIN G.rules
       /\ Len(t.kids) = Len(G.rules[t.rule].rhs)
       /\ \A k \in DOMAIN t.kids :
             /\ RootSym(G, t.kids[k]) = G.rules[t.rule].rhs[k]
             /\ IsTreeFor(G, t.kids[k])
\* t is a derivation tree of a sentence of G
IsTree(G, t) == ~t.leaf /\ IsTreeFor(G, t) /\ RootSym(G, t) = G.start

RECURSIVE Leaves(_)
Leaves(t) ==
  IF t.leaf THEN <<t>>
  ELSE LET RECURSIVE Cat(_)
           Cat(k) == IF k > Len(t.kids) THEN <<>> ELSE Leaves(t.kids[k]) \o Cat(k + 1)
       IN Cat(1)
Yield(t) == [k \in DOMAIN Leaves(t) |-> Leaves(t)[k].sym]
\* every input position exactly once, in order
PositionsInOrder(t) == \A k \in DOMAIN Leaves(t) : Leaves(t)[k].pos = k

(***************************************************************************)
(* Viable prefixes, declaratively (no automaton): u is a prefix of some    *)
(* sentence.  Exact(G,u) is the CYK-style chart "A derives exactly         *)
(* u[i+1..j]"; Pre(G,u) is the chart "A derives some string that has       *)
(* u[i+1..n] as a prefix".  Only correct to use as the C03 oracle when     *)
(* every nonterminal is productive, which C03 states as its precondition.  *)
(***************************************************************************)
RECURSIVE SeqExact(_, _, _, _, _)
SeqExact(G, E, seq, i, j) ==
  IF seq = <<>> THEN i = j
  ELSE \E k \in i..j : <<Head(seq), i, k>> \in E /\ SeqExact(G, E, Tail(seq), k, j)

RECURSIVE ExactLFP(_, _, _)
ExactLFP(G, u, E) ==
  LET n == Len(u)
      E2 == E \cup { t \in { <<G.rules[r].lhs, i, j>> : r \in DOMAIN G.rules, i \in 0..n, j \in 0..n } :
                       \E r \in DOMAIN G.rules : G.rules[r].lhs = t[1] /\ t[2] <= t[3]
                                                  /\ SeqExact(G, E, G.rules[r].rhs, t[2], t[3]) }
  IN IF E2 = E THEN E ELSE ExactLFP(G, u, E2)
Exact(G, u) == ExactLFP(G, u, { <<u[k], k - 1, k>> : k \in 1..Len(u) })

RECURSIVE SeqPre(_, _, _, _, _, _, _)
SeqPre(G, E, P, PR, seq, i, n) ==
  IF seq = <<>> THEN i = n
  ELSE \/ (<<Head(seq), i>> \in P /\ \A k \in DOMAIN Tail(seq) : Tail(seq)[k] \in PR \cup G.ts)
       \/ \E k \in i..n : <<Head(seq), i, k>> \in E /\ SeqPre(G, E, P, PR, Tail(seq), k, n)

RECURSIVE PreLFP(_, _, _, _, _)
PreLFP(G, u, E, PR, P) ==
  LET n == Len(u)
      P2 == P \cup { t \in { <<G.rules[r].lhs, i>> : r \in DOMAIN G.rules, i \in 0..n } :
                       \E r \in DOMAIN G.rules : G.rules[r].lhs = t[1] /\ SeqPre(G, E, P, PR, G.rules[r].rhs, t[2], n) }
  IN IF P2 = P THEN P ELSE PreLFP(G, u, E, PR, P2)
PrefixOK(G, u) ==
  LET n == Len(u) PR == Productive(G) E == Exact(G, u)
      base == { <<a, n>> : a \in G.ts } \cup (IF n > 0 THEN { <<u[n], n - 1>> } ELSE {}) \cup { <<A, n>> : A \in PR }
  IN <<G.start, 0>> \in PreLFP(G, u, E, PR, base)

IsSentence(G, w) == <<G.start, 0, Len(w)>> \in Exact(G, w)

(***************************************************************************)
(* The outcome C01/C03 prescribe for input w, as a record:                 *)
(*   [t |-> "acc", at |-> 0]          w is a sentence                      *)
(*   [t |-> "err", at |-> i]          w[i] is the first token such that    *)
(*                                    w[1..i] is not a prefix of any       *)
(*                                    sentence (1-based)                   *)
(*   [t |-> "eof", at |-> Len(w)+1]   w is a proper prefix of a sentence   *)
(***************************************************************************)
RefOutcome(G, w) ==
  IF IsSentence(G, w) THEN [t |-> "acc", at |-> 0]
  ELSE LET bad == { i \in 1..Len(w) : ~PrefixOK(G, SubSeq(w, 1, i)) }
       IN IF bad = {} THEN [t |-> "eof", at |-> Len(w) + 1]
          ELSE [t |-> "err", at |-> CHOOSE i \in bad : \A j \in bad : i <= j]
=============================================================================
