------------------------------ MODULE OsetInd ------------------------------
(***************************************************************************)
(* The core invariant of kiki::Oset over UNBOUNDED (integer) elements,     *)
(* discharged inductively by Apalache (symbolic, SMT):                     *)
(*     Init => IndInv                 (--length=0)                         *)
(*     IndInv /\ Next => IndInv'      (--init=IndInit --length=1)          *)
(* insert is specified by the postcondition of the binary search (the      *)
(* position i such that everything before is smaller and everything from   *)
(* i on is larger), extend/from_iter by "some strictly ascending sequence  *)
(* with the united range".  Sequences are bounded by MaxLen (Apalache      *)
(* needs a bound on sequence lengths), elements are arbitrary integers.    *)
(* This strengthens the design-level claim beyond TLC's 4-element          *)
(* universe; the binding to the Rust code is MC_Oset's replay and          *)
(* OsetTrace.                                                              *)
(***************************************************************************)
EXTENDS Integers, Sequences, Apalache
CONSTANT
  \* @type: Int;
  MaxLen
VARIABLES
  \* @type: Seq(Int);
  raw,
  \* @type: Set(Int);
  m

\* @type: (Seq(Int)) => Bool;
Ascending(s) == \A i \in DOMAIN s : \A j \in DOMAIN s : i < j => s[i] < s[j]
\* @type: (Seq(Int)) => Set(Int);
RangeOf(s) == { s[i] : i \in DOMAIN s }

ConstInit == MaxLen = 4

Insert(x) ==
  /\ Len(raw) < MaxLen
  /\ IF x \in RangeOf(raw) THEN UNCHANGED raw
     ELSE \E i \in 1..(MaxLen + 1) :
            /\ i <= Len(raw) + 1
            /\ \A k \in DOMAIN raw : k < i => raw[k] < x
            /\ \A k \in DOMAIN raw : k >= i => raw[k] > x
            /\ raw' = SubSeq(raw, 1, i - 1) \o <<x>> \o SubSeq(raw, i, Len(raw))
  /\ m' = m \union {x}

\* extend with the elements of the set S (the argument iterator's elements): sort + dedup of the concatenation
ExtendWith(S) ==
  /\ \E r \in Gen(4) :
        /\ Len(r) <= MaxLen
        /\ Ascending(r)
        /\ RangeOf(r) = RangeOf(raw) \union S
        /\ raw' = r
  /\ m' = m \union S

Init == raw = <<>> /\ m = {}
Next == \/ \E x \in Int : Insert(x)
        \/ \E S \in Gen(2) : ExtendWith(S)

IndInv == /\ Len(raw) <= MaxLen
          /\ Ascending(raw)
          /\ RangeOf(raw) = m
IndInit == /\ raw \in Gen(4) /\ m \in Gen(4) /\ IndInv
=============================================================================
