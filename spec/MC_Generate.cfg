INIT GInit
NEXT GNext
INVARIANT Consistent
CHECK_DEADLOCK FALSE
