INIT Init
NEXT Next
