INIT Init
NEXT Next
INVARIANT PrintCases
CHECK_DEADLOCK FALSE
