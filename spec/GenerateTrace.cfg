INIT TInit
NEXT TRun
POSTCONDITION Accepted
CHECK_DEADLOCK FALSE
