INIT TInit
NEXT TNext
INVARIANT TInv
CONSTRAINT Track
POSTCONDITION Accepted
CHECK_DEADLOCK FALSE
