------------------------------- MODULE Union -------------------------------
(***************************************************************************)
(* Tagged union of grammars - how the scale regime of C01-C03 gets its     *)
(* oracle.  Given component grammars G_1 .. G_k over pairwise disjoint     *)
(* symbols and fresh, pairwise distinct lead terminals l_1 .. l_k:         *)
(*                                                                         *)
(*     Top -> l_1 start_1 | ... | l_k start_k      (+ all component rules) *)
(*                                                                         *)
(* Theorem (UnionOutcome).  For every component i whose language is not    *)
(* empty and every input w over ANY of the terminals of the union:         *)
(*   outcome(Union, <<l_i>> \o w) = outcome(G_i, w) shifted by one token,  *)
(* where a token foreign to G_i is simply a token G_i cannot continue      *)
(* with; the empty input ends too early; an input that starts with a       *)
(* non-lead terminal is rejected at its first token.                       *)
(* Theorem (UnionLALR).  The union is LALR(1) iff every component is.      *)
(*                                                                         *)
(* With it the predictions Driver.tla makes for small grammars (checked    *)
(* exhaustively against the parser-free oracles in MC_Driver) carry over   *)
(* to grammars with hundreds of states and terminals, which TLC could not  *)
(* judge directly (262 states: 13 min for one grammar).  MC_Union checks   *)
(* both theorems on every pair of a bounded universe.                      *)
(***************************************************************************)
EXTENDS LR1

Renamed(G, tag) ==    \* symbols of G suffixed with tag (keeps the `$` prefix of terminals in front)
  LET R(x) == x \o tag IN
  [nts |-> { R(n) : n \in G.nts }, ts |-> { R(t) : t \in G.ts }, start |-> R(G.start),
   rules |-> [i \in DOMAIN G.rules |-> [lhs |-> R(G.rules[i].lhs), rhs |-> [k \in DOMAIN G.rules[i].rhs |-> R(G.rules[i].rhs[k])]]]]

\* the union of two components already renamed apart, with lead terminals l1 # l2 not in either
Union2(G1, l1, G2, l2) ==
  [nts |-> {"Top"} \cup G1.nts \cup G2.nts, ts |-> {l1, l2} \cup G1.ts \cup G2.ts, start |-> "Top",
   rules |-> << [lhs |-> "Top", rhs |-> <<l1, G1.start>>], [lhs |-> "Top", rhs |-> <<l2, G2.start>>] >> \o G1.rules \o G2.rules]

Shift1(o) == IF o.t = "acc" THEN o ELSE [t |-> o.t, at |-> o.at + 1]
\* outcome of component G on w where w may contain foreign terminals: RefOutcome treats any symbol outside G.ts as a token
\* no sentence continues with (PrefixOK / IsSentence are defined for arbitrary symbol sequences)
UnionOutcome(UG, G, l, w) == RefOutcome(UG, <<l>> \o w) = Shift1(RefOutcome(G, w))
=============================================================================
