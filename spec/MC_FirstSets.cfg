SPECIFICATION Spec
INVARIANT FSound
INVARIANT FComplete
INVARIANT FBounded
CHECK_DEADLOCK FALSE
