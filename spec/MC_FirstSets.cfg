SPECIFICATION Spec
INVARIANT FSound
INVARIANT FComplete
INVARIANT FBounded
PROPERTY FMonotone
CHECK_DEADLOCK FALSE
