------------------------------ MODULE Generate ------------------------------
(***************************************************************************)
(* lib.rs::generate as the composition it is: six stages run in order, the *)
(* first error ends the run ("?" short-circuit), two stages cannot fail.   *)
(*                                                                         *)
(*   tokenize -> parse -> validate_ast -> validated_ast_to_machine         *)
(*            -> machine_to_table -> table_to_rust                         *)
(*                                                                         *)
(* State: the stage about to run, which intermediate values exist, and the *)
(* result.  The error CLASS a stage may produce is fixed: only tokenize    *)
(* yields Lex, only parse yields Parse, only validate_ast yields one of    *)
(* the eleven well-formedness errors, only machine_to_table yields         *)
(* TableConflict.  What each stage computes is specified by the stage      *)
(* modules (Lexer, Driver over KikiSyntax, Validate, Builder, TableFill,   *)
(* Emit); this module pins down their ORDER, so that e.g. a lexical fault  *)
(* anywhere in the text wins over a syntax error before it, and a          *)
(* well-formedness violation wins over a table conflict.                   *)
(***************************************************************************)
EXTENDS Naturals, Sequences, FiniteSets

Stages == <<"lex", "parse", "validate", "machine", "table", "emit">>
ValidationErrors == {"NoStartSymbol", "MultipleStartSymbols", "NoTerminalEnum", "MultipleTerminalEnums", "NotUppercase", "NotLowercase",
                     "NameClash", "VariantNameClash", "VariantSeqClash", "UndefinedNonterminal", "UndefinedTerminal"}
ErrorsOf(stage) == CASE stage = "lex" -> {"Lex"} [] stage = "parse" -> {"Parse"} [] stage = "validate" -> ValidationErrors
                     [] stage = "table" -> {"TableConflict"} [] OTHER -> {}
\* the intermediate value a stage produces when it succeeds
Produces(stage) == CASE stage = "lex" -> "tokens" [] stage = "parse" -> "cst" [] stage = "validate" -> "validated"
                     [] stage = "machine" -> "machine" [] stage = "table" -> "table" [] stage = "emit" -> "rust"

VARIABLES at,      \* index into Stages of the stage about to run (7 = finished)
          have,    \* set of intermediate values that exist
          result   \* "running" | "ok" | an error class
gvars == <<at, have, result>>
GInit == at = 1 /\ have = {} /\ result = "running"
StageOk == /\ result = "running" /\ at <= 6
           /\ have' = have \cup {Produces(Stages[at])}
           /\ at' = at + 1
           /\ result' = IF at = 6 THEN "ok" ELSE "running"
StageErr(e) == /\ result = "running" /\ at <= 6 /\ e \in ErrorsOf(Stages[at])
               /\ result' = e /\ at' = 7 /\ UNCHANGED have
GNext == StageOk \/ \E e \in {"Lex", "Parse", "TableConflict"} \cup ValidationErrors : StageErr(e)

\* what may be observed at the end of a run: the error class determines exactly which intermediates exist
Consistent ==
  result # "running" =>
    have = CASE result = "Lex" -> {}
             [] result = "Parse" -> {"tokens"}
             [] result \in ValidationErrors -> {"tokens", "cst"}
             [] result = "TableConflict" -> {"tokens", "cst", "validated", "machine"}
             [] result = "ok" -> {"tokens", "cst", "validated", "machine", "table", "rust"}
=============================================================================
