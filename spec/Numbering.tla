----------------------------- MODULE Numbering -----------------------------
(***************************************************************************)
(* normalize_machine.rs + sort_and_get_index_updater.rs: the numbering of  *)
(* the states the rest of the pipeline sees.                               *)
(*                                                                         *)
(* The builder (Builder.tla) numbers the states in discovery order, which  *)
(* depends on the schedule.  normalize_machine sorts the states BY CONTENT *)
(* (derived Ord of State = lexicographic order of its sorted item vector;  *)
(* items by rule index with Augmented last, then lookahead with Eof last   *)
(* and terminals by name, then dot) and renumbers the transitions and the  *)
(* start state through the resulting old -> new map.  The normal form is   *)
(* therefore a function of the SET of states alone: whatever the schedule, *)
(* the same machine comes out (the design-level reason behind C14 for the  *)
(* automaton; C17 only demands equality up to renumbering, so a difference *)
(* between the observed numbering and this one is conformance drift, never *)
(* a violation).                                                           *)
(*                                                                         *)
(* tr: terminal name -> rank in the name order of the code (String Ord =   *)
(* byte order); supplied by the caller because TLC cannot order strings.   *)
(***************************************************************************)
EXTENDS LR1, SequencesExt

BIG == 1000000000
RuleKey(r) == IF r = 0 THEN BIG ELSE r            \* RuleIndex: Original(i) < Augmented
LaKey(tr, la) == IF la = EOFSYM THEN BIG ELSE tr[la]   \* Lookahead: Terminal(name) < Eof
ItemLt(tr, x, y) ==                               \* field order of StateItem: rule_index, lookahead, dot
  \/ RuleKey(x.r) < RuleKey(y.r)
  \/ /\ RuleKey(x.r) = RuleKey(y.r)
     /\ \/ LaKey(tr, x.la) < LaKey(tr, y.la)
        \/ LaKey(tr, x.la) = LaKey(tr, y.la) /\ x.d < y.d
ItemSeq(tr, I) == SetToSortSeq(I, LAMBDA x, y : ItemLt(tr, x, y))    \* Oset<StateItem>.raw
\* Vec<T>'s Ord: first difference decides, a proper prefix is smaller
LexLt(tr, s, t) ==
  \E k \in 1..Len(t) : /\ k <= Len(s) + 1
                       /\ \A j \in 1..(k - 1) : s[j] = t[j]
                       /\ (k = Len(s) + 1 \/ ItemLt(tr, s[k], t[k]))
\* get_sorted_indexed: the states in content order
StateSeq(tr, SS) ==
  LET key == [I \in SS |-> ItemSeq(tr, I)] IN SetToSortSeq(SS, LAMBDA I, J : LexLt(tr, key[I], key[J]))

\* get_index_updater: old index -> new index, for a builder result `states` (a sequence of pairwise different item sets)
SortPerm(tr, states) ==
  LET sorted == StateSeq(tr, { states[k] : k \in DOMAIN states }) IN
  [i \in 0..(Len(states) - 1) |-> (CHOOSE k \in DOMAIN sorted : sorted[k] = states[i + 1]) - 1]

IsBijection(perm, n) == /\ DOMAIN perm = 0..(n - 1)
                        /\ { perm[i] : i \in DOMAIN perm } = 0..(n - 1)

\* the machine normalize_machine must return, defined from the declarative LALR(1) automaton alone
CanonMachine(C, LS, tr) ==
  LET seq == StateSeq(tr, LS)
      idx == [I \in LS |-> (CHOOSE k \in DOMAIN seq : seq[k] = I) - 1]
  IN [start |-> idx[LALRStart(C, LS)],
      states |-> seq,
      trans |-> { <<idx[t[1]], t[2], idx[t[3]]>> : t \in LALRTrans(C, LS) }]

\* the content order is a strict total order on the item sets of an automaton (so that "sorted" has one meaning)
StrictTotal(tr, SS) ==
  LET key == [I \in SS |-> ItemSeq(tr, I)] IN
  \A I, J \in SS : /\ ~(LexLt(tr, key[I], key[J]) /\ LexLt(tr, key[J], key[I]))
                   /\ (I # J => LexLt(tr, key[I], key[J]) \/ LexLt(tr, key[J], key[I]))
=============================================================================
