--------------------------- MODULE PipelineJudge ---------------------------
(***************************************************************************)
(* End-state conformance for the grammar pipeline (DESIGN.md 4 (C)).       *)
(*                                                                         *)
(* The harness ran the REAL kiki::generate on a grammar file and recorded  *)
(* what came out: the verdict, and either the parse tables (read back from *)
(* the emitted Rust text and, independently, from the Table value) with    *)
(* the automaton, or the payload of the table-conflict error.  Each        *)
(* record is judged here against the declarative definitions of LR1.tla:   *)
(*                                                                         *)
(*   C04  verdict = "ok"  <=>  ConflictFree(G)                             *)
(*   C17  tables match the LALR(1) automaton up to renumbering             *)
(*   C11  the conflict witness is genuine and the attached automaton is    *)
(*        the LALR(1) automaton                                            *)
(*                                                                         *)
(* One record = one step, so TLC's state count is the number of judged     *)
(* records; the verdict for each record is printed as a JUDGE line.        *)
(*                                                                         *)
(* Record format (ND-JSON, file named by the environment variable OBS):    *)
(*  id      : number                                                       *)
(*  g       : [nts, ts, start, rules]  (nts, ts sequences; rules a         *)
(*            sequence of [lhs, rhs])                                      *)
(*  verdict : "ok" | "conflict"                                            *)
(*  tables  : sequence of tables (possibly empty), each                    *)
(*            [start, ts, nts, action, goto] as in LR1!TablesMatch         *)
(*  machines: sequence of automata [start, states, trans], items as        *)
(*            <<r, d, la>> triples                                         *)
(*  conflict: sequence with zero or one [state, items] records             *)
(*  g.tsorted (optional): the terminal names in the code's name order, for *)
(*            the exact-numbering judgement `canon` (Numbering.tla)        *)
(***************************************************************************)
EXTENDS LR1, Json, IOUtils, Integers, Numbering

Obs == ndJsonDeserialize(IOEnv.OBS)

GrammarOf(r) == [nts |-> SeqRange(r.g.nts), ts |-> SeqRange(r.g.ts), start |-> r.g.start, rules |-> r.g.rules]
ItemOf(t) == Item(t[1], t[2], t[3])
MachineOf(m) == [start |-> m.start,
                 states |-> [i \in DOMAIN m.states |-> { ItemOf(m.states[i][k]) : k \in DOMAIN m.states[i] }],
                 trans |-> SeqRange(m.trans)]

FirstBad(checks) == \* checks: sequence of [ok, why]; first failing one or an ok record
  IF \E k \in DOMAIN checks : ~checks[k].ok
  THEN checks[CHOOSE k \in DOMAIN checks : ~checks[k].ok /\ \A j \in 1..(k - 1) : checks[j].ok]
  ELSE [ok |-> TRUE, why |-> ""]

Judge(r) ==
  LET G == GrammarOf(r)
      C == Ctx(G)
      CC == Canon(C)
      LS == MergeByCore(CC)
      cf == ConflictFreeIn(G, LS)
      verdictCheck ==
        IF (r.verdict = "ok") = cf THEN [ok |-> TRUE, why |-> ""]
        ELSE IF cf THEN [ok |-> FALSE, why |-> "C04: grammar is LALR(1) but generate reported a table conflict"]
        ELSE [ok |-> FALSE, why |-> "C04: grammar has an LALR(1) conflict but generate emitted a parser"]
      tableChecks == [k \in DOMAIN r.tables |->
                        LET m == TablesMatchWhy(C, LS, r.tables[k]) IN [ok |-> m.ok, why |-> "C17: " \o m.why]]
      machineChecks == [k \in DOMAIN r.machines |->
                        LET m == MachineMatchWhy(C, LS, MachineOf(r.machines[k])) IN
                        [ok |-> m.ok, why |-> (IF r.verdict = "ok" THEN "C17: " ELSE "C11: ") \o m.why]]
      conflictChecks == [k \in DOMAIN r.conflict |->
                        LET c == r.conflict[k]
                            M == MachineOf(r.machines[1])
                        IN IF c.state \notin 0..(Len(M.states) - 1)
                           THEN [ok |-> FALSE, why |-> "C11: reported state index is not a state of the attached automaton"]
                           ELSE IF ~Genuine(G, M.states[c.state + 1], ItemOf(c.items[1]), ItemOf(c.items[2]))
                           THEN [ok |-> FALSE, why |-> "C11: reported items are not two items of the reported state demanding different actions on one lookahead"]
                           ELSE [ok |-> TRUE, why |-> ""]]
      \* Numbering.tla: the attached / used automaton is THE normal form (states in content order).  Not part of `ok`:
      \* C17 and C11 speak "up to renumbering", a different numbering is conformance drift
      canon == IF "tsorted" \in DOMAIN r.g /\ (\A k \in DOMAIN machineChecks : machineChecks[k].ok)
               THEN LET tr == [t \in SeqRange(r.g.tsorted) |-> CHOOSE k \in DOMAIN r.g.tsorted : r.g.tsorted[k] = t]
                        CM == CanonMachine(C, LS, tr)
                    IN \A k \in DOMAIN r.machines : MachineOf(r.machines[k]) = CM
               ELSE TRUE
      all == <<verdictCheck>> \o conflictChecks \o machineChecks \o (IF r.verdict = "ok" THEN tableChecks ELSE <<>>)
      res == FirstBad(all)
      bad == SelectSeq(all, LAMBDA c : ~c.ok)
  IN [id |-> r.id, ok |-> res.ok, why |-> res.why, whys |-> [k \in DOMAIN bad |-> bad[k].why], cf |-> cf,
      canon |-> canon, nlalr |-> Cardinality(LS), ncanon |-> Cardinality(CC),
      classes |-> ConflictClasses(G, LS)]

VARIABLE l
Init == l = 1
Next == /\ l <= Len(Obs)
        /\ PrintT(<<"JUDGE", ToJson(Judge(Obs[l]))>>)
        /\ l' = l + 1
Done == TLCGet("stats").diameter - 1 = Len(Obs)
=============================================================================
