------------------------------ MODULE Builder ------------------------------
(***************************************************************************)
(* The automaton construction the implementation actually performs         *)
(* (validated_ast_to_machine: UnnormalizedMachineBuilder + normalize):     *)
(* a worklist of state indices; popping a state computes, for every symbol *)
(* right of a dot, the closure of the advanced items and either MERGES it  *)
(* into the existing state with the same LR(0) core (re-enqueueing that    *)
(* state iff it gained items) or APPENDS it as a new state.                *)
(*                                                                         *)
(* It is structured like the code - one action per queue pop and one per   *)
(* computed transition target, same variables as the Rust struct - but is  *)
(* more liberal where the properties allow it: the queue may be served in  *)
(* ANY order (the code is FIFO) and the symbols of a state in any order    *)
(* (the code follows Oset order).  TLC shows that the result does not      *)
(* depend on either, and that it is exactly LR(1)-merged-by-core           *)
(* (LR1!LALRStates / LALRTrans): C17, C04, C11's "attached automaton".     *)
(*                                                                         *)
(* Indices are 0-based like the code's StateIndex: state i is states[i+1]. *)
(***************************************************************************)
EXTENDS LR1

VARIABLES
  g,        \* the grammar
  ctx,      \* Ctx(g): grammar + FIRST + nullable (ImmutContext)
  states,   \* sequence of item sets (Vec<State>)
  trans,    \* set of <<from, symbol, to>> (HashSet<Transition>)
  queue,    \* sequence of state indices (VecDeque<StateIndex>); duplicates possible, as in the code
  cur,      \* index of the state being expanded, or -1
  pending,  \* symbols of cur whose target has not been computed yet
  ph        \* "start" | "build" | "done"
bvars == <<g, ctx, states, trans, queue, cur, pending, ph>>

NoGrammar == [nts |-> {}, ts |-> {}, start |-> "", rules |-> <<>>]
NoCtx == [G |-> NoGrammar, F |-> <<>>, NL |-> {}]

BInit(GU) ==
  /\ g \in GU /\ ph = "start"
  /\ ctx = NoCtx /\ states = <<>> /\ trans = {} /\ queue = <<>> /\ cur = -1 /\ pending = {}

\* UnnormalizedMachineBuilder::new
Start ==
  /\ ph = "start"
  /\ ctx' = Ctx(g)
  /\ states' = << StartItems(ctx') >>
  /\ queue' = <<0>> /\ trans' = {} /\ cur' = -1 /\ pending' = {}
  /\ ph' = "build" /\ UNCHANGED g

RemoveAt(s, k) == SubSeq(s, 1, k - 1) \o SubSeq(s, k + 1, Len(s))

\* `while let Some(state_index) = self.queue.pop_front()` - at ANY position k
Pop(k) ==
  /\ ph = "build" /\ cur = -1 /\ k \in DOMAIN queue
  /\ LET i == queue[k]
         syms == SymsRightOfDot(g, states[i + 1])
     IN /\ pending' = syms
        /\ cur' = IF syms = {} THEN -1 ELSE i
  /\ queue' = RemoveAt(queue, k)
  /\ UNCHANGED <<g, ctx, states, trans, ph>>

SameCore(sts, tgt) == { j \in 0..(Len(sts) - 1) : Core(sts[j + 1]) = Core(tgt) }

\* enqueue_transition_target(cur, X): get_transition_target, then merge or enqueue_new_state
Target(X) ==
  /\ ph = "build" /\ cur # -1 /\ X \in pending
  /\ LET tgt == Goto(ctx, states[cur + 1], X)
         same == SameCore(states, tgt)
     IN IF same # {}
        THEN LET j == CHOOSE k \in same : \A m \in same : k <= m   \* find_map: the first one
                 grew == ~(tgt \subseteq states[j + 1])
             IN /\ states' = [states EXCEPT ![j + 1] = @ \cup tgt]
                /\ queue' = IF grew THEN Append(queue, j) ELSE queue
                /\ trans' = trans \cup { <<cur, X, j>> }
        ELSE /\ states' = Append(states, tgt)
             /\ queue' = Append(queue, Len(states))
             /\ trans' = trans \cup { <<cur, X, Len(states)>> }
  /\ pending' = pending \ {X}
  /\ cur' = IF pending' = {} THEN -1 ELSE cur
  /\ UNCHANGED <<g, ctx, ph>>

Finish ==
  /\ ph = "build" /\ cur = -1 /\ queue = <<>>
  /\ ph' = "done"
  /\ UNCHANGED <<g, ctx, states, trans, queue, cur, pending>>

BNext == Start \/ (\E k \in DOMAIN queue : Pop(k)) \/ (\E X \in pending : Target(X)) \/ Finish
\* one schedule only, like the code: FIFO queue and one fixed symbol order (used for the large classics, for the
\* liveness check and as the reference behaviour when reading a rejected trace)
BNextFifo == Start \/ Pop(1) \/ (pending # {} /\ Target(CHOOSE Y \in pending : TRUE)) \/ Finish

(***************************************************************************)
(* Properties                                                              *)
(***************************************************************************)
\* one state per LR(0) core, always (so `get_index_of_mergable` finding the first match is finding THE match)
NoDupCores == \A i, j \in DOMAIN states : Core(states[i]) = Core(states[j]) => i = j
\* every stored item set is closed and every queued / transition index is a state
WellFormedBuild ==
  ph # "start" =>
    /\ \A i \in DOMAIN states : states[i] # {} /\ Closure(ctx, states[i]) = states[i]
    /\ \A k \in DOMAIN queue : queue[k] \in 0..(Len(states) - 1)
    /\ \A t \in trans : t[1] \in 0..(Len(states) - 1) /\ t[3] \in 0..(Len(states) - 1)
    /\ cur \in -1..(Len(states) - 1)
\* item sets only ever grow, states are never removed or reordered (=> termination: the item space is finite)
Monotone == [][ /\ Len(states') >= Len(states)
                /\ \A i \in DOMAIN states : states[i] \subseteq states'[i] ]_bvars

AsMachine == [start |-> 0, states |-> states, trans |-> trans]
\* merge-on-the-fly computes exactly LR(1)-merged-by-core
DoneIsLALR ==
  ph = "done" => LET LS == LALRStates(ctx) IN MachineMatchWhy(ctx, LS, AsMachine).ok

(***************************************************************************)
(* normalize_machine: renumber the states through a permutation (the code  *)
(* uses the sort order of the states; any permutation must do).            *)
(***************************************************************************)
Normalize(M, perm) ==   \* perm: function 0..n-1 -> 0..n-1, a bijection
  LET n == Len(M.states) IN
  [start |-> perm[M.start],
   states |-> [k \in 1..n |-> M.states[(CHOOSE i \in 0..(n - 1) : perm[i] = k - 1) + 1]],
   trans |-> { <<perm[t[1]], t[2], perm[t[3]]>> : t \in M.trans }]
Reverse(n) == [i \in 0..(n - 1) |-> n - 1 - i]
Rotate(n) == [i \in 0..(n - 1) |-> (i + 1) % n]
NormalizeIsIsomorphism ==
  ph = "done" => LET LS == LALRStates(ctx) n == Len(states) IN
     /\ MachineMatchWhy(ctx, LS, Normalize(AsMachine, Reverse(n))).ok
     /\ MachineMatchWhy(ctx, LS, Normalize(AsMachine, Rotate(n))).ok

\* fingerprint view: order-free, so that different discovery orders do not split states
\* (the queue is kept as a BAG of item sets: with duplicates collapsed, popping one of two copies would lead back
\* to an "already seen" view and TLC would stop exploring before the queue is empty)
BView == <<g, ph, { states[i] : i \in DOMAIN states },
           LET qs == { states[queue[k] + 1] : k \in DOMAIN queue } IN
             [I \in qs |-> Cardinality({ k \in DOMAIN queue : states[queue[k] + 1] = I })],
           IF cur = -1 THEN {} ELSE states[cur + 1], pending,
           { <<Core(states[t[1] + 1]), t[2], Core(states[t[3] + 1])>> : t \in trans }>>
=============================================================================
