---------------------------- MODULE MC_Frontend ----------------------------
(***************************************************************************)
(* C09: the front end accepts exactly the sentences of the Kiki grammar    *)
(* and stops at the first token that cannot continue any valid file.       *)
(*                                                                         *)
(* (1) Driver.tla is explored over the LALR(1) tables of the grammar of    *)
(*     record (KikiSyntax!KikiG) for every input of up to MAXLEN tokens.   *)
(*     The fingerprint VIEW hides the consumed input, so the distinct      *)
(*     states are the distinct parser CONFIGURATIONS (stack + lookahead);  *)
(*     each keeps one shortest witness input.  Every finished run is       *)
(*     printed as a prediction that the driver renders to source text      *)
(*     and replays on the real generate.                                   *)
(* (2) The tables checked in as parser.rs (extracted by the driver, file   *)
(*     TABLES) ARE the LALR(1) tables of the grammar of record, up to      *)
(*     renumbering (LR1!TablesMatch) - not merely equivalent within the    *)
(*     explored depth.                                                     *)
(* (3) Sentences of up to 6 tokens agree with the parser-free Cfg!Lang.    *)
(***************************************************************************)
EXTENDS Driver, KikiSyntax, Json, IOUtils
MaxLen == atoi(IOEnv.MAXLEN)
Init == DInit({KikiG})
Next == DNext(MaxLen)
View == <<stack, la, ended, res.t, res.at = Len(taken)>>
PrintRuns == Finished => PrintT(<<"RUN", ToJson([w |-> taken, t |-> res.t, at |-> res.at])>>)
\* short inputs against the parser-free oracle (the chart is expensive on a 42-rule grammar: only up to 4 tokens)
ShortOutcomeRight == (Finished /\ Len(taken) <= 4) => LET ref == RefOutcome(dg, taken) IN ref.t = res.t /\ ref.at = res.at
TablesT == ndJsonDeserialize(IOEnv.TABLES)[1]
ASSUME LET C == Ctx(KikiG) LS == LALRStates(C) m == TablesMatchWhy(C, LS, TablesT) IN
   /\ PrintT(<<"FRONTEND-TABLES", ToJson([ok |-> m.ok, why |-> m.why, nlalr |-> Cardinality(LS), ncanon |-> Cardinality(Canon(C)),
                                          cf |-> ConflictFreeIn(KikiG, LS)])>>)
ASSUME PrintT(<<"GRAMMAR-OF-RECORD", ToJson([start |-> KikiG.start, rules |-> KikiG.rules])>>)
=============================================================================
