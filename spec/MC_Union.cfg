INIT Init
NEXT Next
INVARIANT Holds
CHECK_DEADLOCK FALSE
