------------------------------ MODULE FirstSets ------------------------------
(***************************************************************************)
(* The FIRST/nullable computation as the implementation performs it        *)
(* (first_set_map.rs): a map from every declared nonterminal to            *)
(* [ts, eps], initially empty and not nullable; PASSES over the rules in   *)
(* declaration order, each rule adding FIRST of its right-hand side        *)
(* (computed from the map AS IT IS AT THAT MOMENT, so later rules of the   *)
(* same pass see earlier updates) to its left-hand side; the loop ends     *)
(* after the first pass in which nothing changed - where "changed" means   *)
(* a terminal was added OR a nonterminal became nullable.                  *)
(* Property: on termination the map is the least fixed point of Cfg.tla    *)
(* (First, Nullable); the number of passes is bounded.                     *)
(***************************************************************************)
EXTENDS Cfg, TLC

VARIABLES fg,        \* grammar
          fmap,      \* function nonterminal -> [ts, eps]
          frule,     \* index of the next rule in the current pass
          fchanged,  \* something changed in the current pass
          fpasses,   \* completed passes
          fdone
fvars == <<fg, fmap, frule, fchanged, fpasses, fdone>>

EmptyEntry == [ts |-> {}, eps |-> FALSE]
\* get_current_first_set for a right-hand side under map m
RECURSIVE SeqFirst(_, _, _)
SeqFirst(G, m, seq) ==
  IF seq = <<>> THEN [ts |-> {}, eps |-> TRUE]
  ELSE LET x == Head(seq) IN
       IF x \in G.ts THEN [ts |-> {x}, eps |-> FALSE]
       ELSE IF ~m[x].eps THEN [ts |-> m[x].ts, eps |-> FALSE]
       ELSE LET rest == SeqFirst(G, m, Tail(seq)) IN [ts |-> m[x].ts \cup rest.ts, eps |-> rest.eps]

FInit(GU) == /\ fg \in GU /\ fmap = [n \in fg.nts |-> EmptyEntry]
             /\ frule = 1 /\ fchanged = FALSE /\ fpasses = 0 /\ fdone = FALSE
\* expand_rule
ExpandRule ==
  /\ ~fdone /\ frule <= Len(fg.rules)
  /\ LET r == fg.rules[frule]
         cur == SeqFirst(fg, fmap, r.rhs)
         old == fmap[r.lhs]
         new == [ts |-> old.ts \cup cur.ts, eps |-> old.eps \/ cur.eps]
     IN /\ fmap' = [fmap EXCEPT ![r.lhs] = new]
        /\ fchanged' = (fchanged \/ new # old)
  /\ frule' = frule + 1
  /\ UNCHANGED <<fg, fpasses, fdone>>
EndPass ==
  /\ ~fdone /\ frule > Len(fg.rules)
  /\ fpasses' = fpasses + 1
  /\ IF fchanged THEN frule' = 1 /\ fchanged' = FALSE /\ fdone' = FALSE
     ELSE fdone' = TRUE /\ UNCHANGED <<frule, fchanged>>
  /\ UNCHANGED <<fg, fmap>>
FNext == ExpandRule \/ EndPass

\* one whole pass as a function: fold ExpandRule over the rules in order (used by the trace validator)
RECURSIVE PassFrom(_, _, _, _)
PassFrom(G, m, i, ch) ==
  IF i > Len(G.rules) THEN [map |-> m, changed |-> ch]
  ELSE LET r == G.rules[i]
           cur == SeqFirst(G, m, r.rhs)
           old == m[r.lhs]
           new == [ts |-> old.ts \cup cur.ts, eps |-> old.eps \/ cur.eps]
       IN PassFrom(G, [m EXCEPT ![r.lhs] = new], i + 1, ch \/ new # old)
RunPass(G, m) == PassFrom(G, m, 1, FALSE)

\* the map only grows
FMonotone == [][ \A n \in fg.nts : fmap[n].ts \subseteq fmap'[n].ts /\ (fmap[n].eps => fmap'[n].eps) ]_fvars
\* never more than the least fixed point
FSound == LET F == First(fg) NL == Nullable(fg) IN \A n \in fg.nts : fmap[n].ts \subseteq F[n] /\ (fmap[n].eps => n \in NL)
\* at the end exactly the least fixed point
FComplete == fdone => LET F == First(fg) NL == Nullable(fg) IN \A n \in fg.nts : fmap[n].ts = F[n] /\ (fmap[n].eps <=> n \in NL)
\* every pass but the last adds at least one fact: at most |nts| * (|ts| + 1) + 1 passes
FBounded == fpasses <= Cardinality(fg.nts) * (Cardinality(fg.ts) + 1) + 1
=============================================================================
