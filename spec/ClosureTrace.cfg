INIT TInit
NEXT TNext
INVARIANT TInv
POSTCONDITION Accepted
CHECK_DEADLOCK FALSE
