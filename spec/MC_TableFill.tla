--------------------------- MODULE MC_TableFill ---------------------------
(* Exhaustive check of TableFill.tla on the LALR(1) automaton of every grammar of a bounded universe and the
   small classics: every item order within a state and EVERY order of copying the hash-map cells (C14). *)
EXTENDS TableFill, Universe, Classics, IOUtils
UPick == CASE IOEnv.UNIVERSE = "U1" -> U1
           [] IOEnv.UNIVERSE = "U2" -> U2
           [] IOEnv.UNIVERSE = "none" -> {}
SmallClassics == { c.g : c \in { d \in Classics : Len(d.g.rules) <= 3 } }
Init == TFInit(UPick \cup SmallClassics)
Load == TFLoad(CanonMachine(Ctx(tg)))
Next == Load \/ TFNext
Spec == Init /\ [][Next]_tvars
\* classic claims from the literature agree with the declarative definition
ASSUME \A c \in Classics : ConflictFree(Ctx(c.g)) = c.lalr
=============================================================================
