--------------------------- MODULE MC_TableFill ---------------------------
(* Exhaustive check of TableFill.tla on the LALR(1) automaton of every grammar of a bounded universe and the
   small classics: every item order within a state and EVERY order of copying the hash-map cells (C14). *)
EXTENDS TableFill, Universe, Classics, IOUtils
UPick == CASE IOEnv.UNIVERSE = "U1" -> U1
           [] IOEnv.UNIVERSE = "U2" -> U2
           \* U2 under every item order and every fill order is beyond 1.3 * 10^8 states (measured, unfinished after 70 min);
           \* the thorough tier takes U1 plus the three-rule grammars of U2 whose right-hand sides have at most 4 symbols in all (7.5 * 10^6 states, 4 min; at most 5: > 10^8)
           [] IOEnv.UNIVERSE = "U2light" -> { G \in U2 : Len(G.rules) <= 2 \/ Len(G.rules[1].rhs) + Len(G.rules[2].rhs) + Len(G.rules[3].rhs) <= 4 }
           [] IOEnv.UNIVERSE = "none" -> {}
SmallClassics == { c.g : c \in { d \in Classics : Len(d.g.rules) <= 3 } }
Init == TFInit(UPick \cup SmallClassics)
Load == TFLoad(CanonMachine(Ctx(tg)))
Next == Load \/ TFNext
Spec == Init /\ [][Next]_tvars
\* classic claims from the literature agree with the declarative definition
ASSUME \A c \in Classics : ConflictFree(Ctx(c.g)) = c.lalr
=============================================================================
