SPECIFICATION LiveSpec
PROPERTY Terminates
CHECK_DEADLOCK FALSE
