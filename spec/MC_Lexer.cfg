INIT Init
NEXT Next
INVARIANT Agree
INVARIANT Accounting
INVARIANT PrintCases
CHECK_DEADLOCK FALSE
