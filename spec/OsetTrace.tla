----------------------------- MODULE OsetTrace -----------------------------
(* Trace validation: seeded random histories of hundreds of operations on two real kiki::Oset values (recorded by the
   harness through the public API) must be explained step by step by Oset.tla's actions, with every logged observation
   (both raw sequences via Deref, iteration by reference and by value, len, contains for every element, ==, cmp,
   partial_cmp, hash equality) equal to what the specification computes.  One TLC run per element type (ORDERFILE). *)
EXTENDS Oset, TLC, Json, IOUtils
Cfg == ndJsonDeserialize(IOEnv.ORDERFILE)[1]
MCN == Cfg.n
MCOrder == Cfg.order
Rec == ndJsonDeserialize(IOEnv.TRACE)
VARIABLE l
IsEvent(e) == l <= Len(Rec) /\ Rec[l].ev = e /\ l' = l + 1
TInit == OInit /\ l = 1
TReset == IsEvent("reset") /\ a' = <<>> /\ b' = <<>> /\ ma' = {} /\ mb' = {}
TOp == /\ IsEvent("op")
       /\ LET r == Rec[l] IN
          /\ \/ r.op = "insert" /\ Len(r.args) = 1 /\ Insert(r.w, r.args[1])
             \/ r.op = "extend" /\ Extend(r.w, r.args)
             \/ r.op = "from_iter" /\ FromIter(r.w, r.args)
          /\ r.a = a' /\ r.b = b'
          /\ r.a_ref = a' /\ r.b_ref = b' /\ r.a_own = a' /\ r.b_own = b'
          /\ r.len_a = Len(a') /\ r.len_b = Len(b')
          /\ \A x \in 0..(MCN - 1) : r.ca[x + 1] = Contains(a', x) /\ r.cb[x + 1] = Contains(b', x)
          /\ r.eq = EqRaw(a', b') /\ r.heq = EqRaw(a', b')
          /\ r.cmp = CmpRaw(a', b') /\ r.pcmp = r.cmp
TNext == TReset \/ TOp
TInv == Sorted /\ DenotesSet /\ Membership /\ EqualityBySet /\ OrderingBySet
Accepted == LET d == TLCGet("stats").diameter IN
   IF d - 1 = Len(Rec) THEN PrintT(<<"TRACE-ACCEPTED", Len(Rec)>>)
   ELSE PrintT(<<"TRACE-REJECTED", d, ToJson(Rec[d])>>) /\ FALSE
=============================================================================
