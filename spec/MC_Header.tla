----------------------------- MODULE MC_Header -----------------------------
(* Every text of at most MAXLINES lines over the line classes: the line-by-line scan computes exactly the declarative
   RefHash.  Every explored text is printed with the prediction (the replay set for the real get_grammar_hash). *)
EXTENDS Header, TLC, Json, IOUtils
MaxLines == atoi(IOEnv.MAXLINES)
Texts == UNION { [1..n -> Classes] : n \in 0..MaxLines }
Init == HInit(Texts)
Next == HNext
PrintCases == (hres # Scanning) => PrintT(<<"HASH", ToJson([text |-> htext, some |-> hres.some, v |-> hres.v])>>)
ASSUME EmittedRoundTrip
=============================================================================
