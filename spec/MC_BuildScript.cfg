CONSTANTS
  Versions <- MCVersions
  Invalid <- MCInvalid
SPECIFICATION Spec
INVARIANT TypeOK
INVARIANT NeverStale
INVARIANT FailureIsHonest
PROPERTY Idempotent
CHECK_DEADLOCK FALSE
