INIT Init
NEXT Next
INVARIANT StackDiscipline
INVARIANT TreeRight
INVARIANT Consumption
INVARIANT ShortOutcomeRight
INVARIANT PrintRuns
VIEW View
CHECK_DEADLOCK FALSE
