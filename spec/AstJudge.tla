------------------------------ MODULE AstJudge ------------------------------
(***************************************************************************)
(* End-state conformance of the front half of the pipeline (tokens ->      *)
(* concrete syntax tree -> abstract file -> validated file): for files the *)
(* real generate accepted, the harness recorded the tokens of the REAL     *)
(* tokenizer (kinds and lexemes) and the validated file the REAL pipeline  *)
(* built.  TLC parses the kinds with the LALR(1) tables of the grammar of  *)
(* record (computed from KikiSyntax!KikiG, not taken from parser.rs),      *)
(* reads the declarations off the tree (Ast!FileOf, Ast!Declared) and      *)
(* compares.                                                               *)
(*   OBS : ND-JSON [id, kinds, tx, g]                                      *)
(*         g = [start, tenum, tattrs, ts, ttypes, nts, rules]              *)
(***************************************************************************)
EXTENDS Ast, LR1, Json, IOUtils, TLC

Obs == ndJsonDeserialize(IOEnv.OBS)
VARIABLES l, tab
Init == l = 1 /\ tab = DTables(Ctx(KikiG))

Diff(d, g) ==
  IF d.start # g.start THEN "start symbol"
  ELSE IF d.tenum # g.tenum THEN "name of the terminal declaration"
  ELSE IF d.tattrs # g.tattrs THEN "attributes of the terminal declaration"
  ELSE IF d.ts # g.ts THEN "terminals (names or order)"
  ELSE IF d.ttypes # g.ttypes THEN "payload types of the terminals"
  ELSE IF d.nts # g.nts THEN "nonterminals (names or order)"
  ELSE IF Len(d.rules) # Len(g.rules) THEN "number of productions"
  ELSE IF \E k \in DOMAIN d.rules : d.rules[k] # g.rules[k]
       THEN LET k == CHOOSE i \in DOMAIN d.rules : d.rules[i] # g.rules[i] /\ \A j \in 1..(i - 1) : d.rules[j] = g.rules[j]
                a == d.rules[k] b == g.rules[k]
            IN "production " \o ToString(k) \o ": " \o
               (IF a.lhs # b.lhs THEN "left-hand side"
                ELSE IF a.rhs # b.rhs THEN "field symbols (right-hand side)"
                ELSE IF a.mask # b.mask THEN "which fields are `_`"
                ELSE IF a.fnames # b.fnames THEN "field names"
                ELSE IF a.style # b.style THEN "named / tuple / empty"
                ELSE IF a.ctor # b.ctor \/ a.vname # b.vname THEN "struct / variant name"
                ELSE "attributes")
  ELSE ""

JudgeRec(r) ==
  LET run == RunTab(KikiG, tab, <<tab.start>>, <<>>, r.kinds, 1) IN
  IF run.t # "acc" THEN [id |-> r.id, ok |-> FALSE, why |-> "the token sequence of an accepted file is not a sentence of the grammar of record", items |-> 0]
  ELSE LET f == FileOf(r.tx, run.tree) IN
       IF ~NothingLost(r.kinds, r.tx, f) THEN [id |-> r.id, ok |-> FALSE, why |-> "SPEC: Ast!FileOf lost or reordered a lexeme", items |-> Len(f)]
       ELSE IF Len(Starts(f)) # 1 \/ Len(TEnums(f)) # 1
            THEN [id |-> r.id, ok |-> FALSE, why |-> "an accepted file does not have exactly one start and one terminal declaration", items |-> Len(f)]
       ELSE LET why == Diff(Declared(f), r.g) IN
            [id |-> r.id, ok |-> (why = ""), why |-> IF why = "" THEN "" ELSE "the validated file differs from the declarations in: " \o why, items |-> Len(f)]

Next == /\ l <= Len(Obs)
        /\ PrintT(<<"AJUDGE", ToJson(JudgeRec(Obs[l]))>>)
        /\ l' = l + 1 /\ UNCHANGED tab
Done == TLCGet("stats").diameter - 1 = Len(Obs)
=============================================================================
