----------------------------- MODULE TableFill -----------------------------
(***************************************************************************)
(* machine_to_table, as the implementation performs it:                    *)
(*                                                                         *)
(*  scan   for every state in INDEX order, for every item of the state,    *)
(*         TableBuilder::set_action(state, quasi-terminal, item, action):  *)
(*         empty cell -> record (item, action); same action -> ignore;     *)
(*         different action -> stop with TableConflict(state, existing     *)
(*         item, new item);                                                *)
(*  gotos  one goto entry per nonterminal transition;                      *)
(*  fill   build_as_is: copy the recorded cells into the dense table,      *)
(*         iterating over a HASH MAP - modelled as "pick ANY unwritten     *)
(*         cell next" (C14).                                               *)
(*                                                                         *)
(* The items of one state are scanned in any order here (the code follows  *)
(* the Oset order); which conflict is reported may depend on it, that it   *)
(* is a genuine one may not.                                               *)
(*                                                                         *)
(* Properties: the scan ends in a conflict iff the grammar is not LALR(1)  *)
(* (C04); a reported conflict is genuine (C11); the final table is the     *)
(* LALR(1) table whatever the fill order (C17, C14); every lookup the code *)
(* unwraps is defined (C07).                                               *)
(***************************************************************************)
EXTENDS LR1

VARIABLES
  tg,        \* grammar
  tctx,      \* Ctx(tg)
  mach,      \* [start, states, trans]: the normalized automaton (0-based numbering)
  phase,     \* "init" | "scan" | "gotos" | "fill" | "ok" | "conflict"
  spos,      \* index of the state being scanned
  rem,       \* items of that state not yet scanned
  cells,     \* recorded action cells: function <<state, quasi-terminal>> -> [item, act]
  gotos,     \* recorded goto cells: function <<state, nonterminal>> -> target state
  conflict,  \* [state, items]: payload of the TableConflict error (meaningful in phase "conflict")
  tabA,      \* dense action table being filled: function <<state, quasi-terminal>> -> <<kind, arg>>
  tabG,      \* dense goto table being filled: function <<state, nonterminal>> -> target or -1
  wrA, wrG,  \* cells already copied by build_as_is
  tls        \* ghost: LALRStates(tctx), computed once when the automaton is loaded (used by the properties only)
tvars == <<tg, tctx, mach, phase, spos, rem, cells, gotos, conflict, tabA, tabG, wrA, wrG, tls>>

NoConflict == [state |-> -1, items |-> <<>>]
Empty == <<>>     \* the function with empty domain

NStatesM == Len(mach.states)
StateItems(s) == mach.states[s + 1]

\* Machine::get_shift_dest(...).unwrap(): the target of the terminal transition; must exist
ShiftDest(s, t) == LET c == { tr \in mach.trans : tr[1] = s /\ tr[2] = t } IN
                   IF c = {} THEN -1 ELSE (CHOOSE tr \in c : TRUE)[3]

\* what add_item_action_to_table asks for: a set with zero or one <<quasi-terminal, action>>
Wanted(s, it) ==
  LET G == tg IN
  IF it.r = 0 THEN (IF it.d = 0 THEN {} ELSE { <<EOFSYM, <<"a", 0>>>> })
  ELSE IF EndOf(G, it) THEN { <<it.la, <<"r", it.r>>>> }
  ELSE IF NextSym(G, it) \in G.ts THEN { <<NextSym(G, it), <<"s", ShiftDest(s, NextSym(G, it))>>>> }
  ELSE {}

Extend(f, k, v) == [x \in DOMAIN f \cup {k} |-> IF x = k THEN v ELSE f[x]]

TFInit(GU) ==
  /\ tg \in GU /\ phase = "init"
  /\ tctx = [G |-> tg, F |-> <<>>, NL |-> {}] /\ mach = [start |-> 0, states |-> <<>>, trans |-> {}]
  /\ spos = 0 /\ rem = {} /\ cells = Empty /\ gotos = Empty /\ conflict = NoConflict
  /\ tabA = Empty /\ tabG = Empty /\ wrA = {} /\ wrG = {} /\ tls = {}

\* machine_to_table(machine, file): start scanning automaton M
TFLoad(M) ==
  /\ phase = "init"
  /\ tctx' = Ctx(tg) /\ mach' = M
  /\ phase' = "scan" /\ spos' = 0 /\ rem' = M.states[1]
  /\ tls' = LALRStates(tctx')
  /\ UNCHANGED <<tg, cells, gotos, conflict, tabA, tabG, wrA, wrG>>

\* the LALR(1) automaton with an arbitrary but fixed numbering of its states
RECURSIVE AsSeq(_)
AsSeq(S) == IF S = {} THEN <<>> ELSE LET x == CHOOSE y \in S : TRUE IN <<x>> \o AsSeq(S \ {x})
CanonMachine(C) ==
  LET LS == LALRStates(C)
      sq == AsSeq(LS)
      idx(I) == (CHOOSE k \in DOMAIN sq : sq[k] = I) - 1
  IN [start |-> idx(LALRStart(C, LS)), states |-> sq,
      trans |-> { <<idx(t[1]), t[2], idx(t[3])>> : t \in LALRTrans(C, LS) }]

\* advance to the next state with items left (or leave the scan phase)
AfterItem(newRem) ==
  IF newRem # {} THEN /\ rem' = newRem /\ spos' = spos /\ phase' = "scan"
  ELSE IF spos + 1 < NStatesM THEN /\ rem' = StateItems(spos + 1) /\ spos' = spos + 1 /\ phase' = "scan"
  ELSE /\ rem' = {} /\ spos' = spos /\ phase' = "gotos"

ScanItem(it) ==
  /\ phase = "scan" /\ it \in rem
  /\ LET w == Wanted(spos, it) IN
     IF w = {} THEN /\ AfterItem(rem \ {it}) /\ UNCHANGED <<cells, conflict>>
     ELSE LET qa == CHOOSE x \in w : TRUE
              key == <<spos, qa[1]>>
          IN IF key \in DOMAIN cells
             THEN IF cells[key].act = qa[2]
                  THEN /\ AfterItem(rem \ {it}) /\ UNCHANGED <<cells, conflict>>
                  ELSE /\ phase' = "conflict"
                       /\ conflict' = [state |-> spos, items |-> <<cells[key].item, it>>]
                       /\ UNCHANGED <<cells, spos, rem>>
             ELSE /\ cells' = Extend(cells, key, [item |-> it, act |-> qa[2]])
                  /\ AfterItem(rem \ {it}) /\ UNCHANGED conflict
  /\ UNCHANGED <<tg, tctx, mach, gotos, tabA, tabG, wrA, wrG, tls>>

NtTrans == { tr \in mach.trans : tr[2] \in tg.nts }
AddGotos ==
  /\ phase = "gotos"
  /\ gotos' = [k \in { <<tr[1], tr[2]>> : tr \in NtTrans } |-> (CHOOSE tr \in NtTrans : tr[1] = k[1] /\ tr[2] = k[2])[3]]
  /\ tabA' = [k \in (0..(NStatesM - 1)) \X QT(tg) |-> <<"e", 0>>]      \* get_empty_table
  /\ tabG' = [k \in (0..(NStatesM - 1)) \X tg.nts |-> -1]
  /\ phase' = "fill"
  /\ UNCHANGED <<tg, tctx, mach, spos, rem, cells, conflict, wrA, wrG, tls>>

\* build_as_is, first loop: any unwritten action cell next
FillAction(k) ==
  /\ phase = "fill" /\ k \in DOMAIN cells \ wrA
  /\ tabA' = [tabA EXCEPT ![k] = cells[k].act]
  /\ wrA' = wrA \cup {k}
  /\ UNCHANGED <<tg, tctx, mach, phase, spos, rem, cells, gotos, conflict, tabG, wrG, tls>>
\* second loop: any unwritten goto cell next (only after the first loop has finished)
FillGoto(k) ==
  /\ phase = "fill" /\ wrA = DOMAIN cells /\ k \in DOMAIN gotos \ wrG
  /\ tabG' = [tabG EXCEPT ![k] = gotos[k]]
  /\ wrG' = wrG \cup {k}
  /\ UNCHANGED <<tg, tctx, mach, phase, spos, rem, cells, gotos, conflict, tabA, wrA, tls>>
FillDone ==
  /\ phase = "fill" /\ wrA = DOMAIN cells /\ wrG = DOMAIN gotos
  /\ phase' = "ok"
  /\ UNCHANGED <<tg, tctx, mach, spos, rem, cells, gotos, conflict, tabA, tabG, wrA, wrG, tls>>

TFNext == (\E it \in rem : ScanItem(it)) \/ AddGotos
          \/ (\E k \in DOMAIN cells : FillAction(k)) \/ (\E k \in DOMAIN gotos : FillGoto(k)) \/ FillDone

(***************************************************************************)
(* Properties                                                              *)
(***************************************************************************)
TsSeq == CHOOSE s \in [1..Cardinality(tg.ts) -> tg.ts] : SeqRange(s) = tg.ts
NtsSeq == CHOOSE s \in [1..Cardinality(tg.nts) -> tg.nts] : SeqRange(s) = tg.nts
AsTable == [start |-> mach.start, ts |-> TsSeq, nts |-> NtsSeq,
            action |-> [s \in 1..NStatesM |-> [k \in 1..(Len(TsSeq) + 1) |-> tabA[<<s - 1, (TsSeq \o <<EOFSYM>>)[k]>>]]],
            goto |-> [s \in 1..NStatesM |-> [k \in 1..Len(NtsSeq) |-> tabG[<<s - 1, NtsSeq[k]>>]]]]

\* C07: the unwrap in add_original_shift_to_table and the "Impossible: goto conflict" panic cannot happen
LookupsDefined ==
  /\ \A k \in DOMAIN cells : cells[k].act[1] = "s" => cells[k].act[2] \in 0..(NStatesM - 1)
  /\ \A t1, t2 \in NtTrans : (t1[1] = t2[1] /\ t1[2] = t2[2]) => t1[3] = t2[3]
\* C04: past the scan without a conflict  <=>  the grammar is LALR(1)
VerdictRight ==
  LET LS == tls IN
  /\ phase \in {"gotos", "fill", "ok"} => ConflictFreeIn(tg, LS)
  /\ phase = "conflict" => ~ConflictFreeIn(tg, LS)
\* C11: the witness is genuine
WitnessGenuine ==
  phase = "conflict" =>
     /\ conflict.state \in 0..(NStatesM - 1)
     /\ Genuine(tg, StateItems(conflict.state), conflict.items[1], conflict.items[2])
\* C17 (and C14: whatever order the cells were copied in)
FinalTableIsLALR ==
  phase = "ok" => TablesMatchWhy(tctx, tls, AsTable).ok

\* C14: the dense table is a function of the recorded cells alone - the order in which build_as_is copied them
\* (hash-map iteration order) leaves no trace
FillOrderIrrelevant ==
  phase = "ok" => /\ \A key \in DOMAIN tabA : tabA[key] = IF key \in DOMAIN cells THEN cells[key].act ELSE <<"e", 0>>
                  /\ \A key \in DOMAIN tabG : tabG[key] = IF key \in DOMAIN gotos THEN gotos[key] ELSE -1

\* order-free fingerprint
TView == <<tg, mach, phase, spos, rem, cells, conflict, tabA, tabG>>
=============================================================================
