SPECIFICATION Spec
INVARIANT StackDiscipline
INVARIANT OutcomeRight
INVARIANT AcceptIffSentence
INVARIANT StopsLikeCanonical
INVARIANT TreeRight
INVARIANT Consumption
INVARIANT PrintRuns
INVARIANT PrintSkips
CHECK_DEADLOCK FALSE
