----------------------------- MODULE Freshness -----------------------------
(***************************************************************************)
(* The build-script protocol that relies on C15 (kiki/build.rs): a grammar *)
(* file and the checked-in parser generated from it.  On every build the   *)
(* script regenerates the parser unless get_grammar_hash(parser) equals    *)
(* the digest of the current grammar text.                                 *)
(* State: the grammar's current content (abstract versions), and the       *)
(* parser file: none, or [from |-> version it was generated from].         *)
(* Digest is modelled as the identity on versions (injective: collision    *)
(* resistance of SHA-256 is the assumption); StoredHash is what            *)
(* get_grammar_hash reads back from the emitted header (C15: exactly the   *)
(* digest of the source generate was given).                               *)
(* Invariant: right after a build, the parser is never stale.              *)
(***************************************************************************)
EXTENDS Naturals
CONSTANT Versions
VARIABLES gram, parser, justBuilt
fvars == <<gram, parser, justBuilt>>
NoParser == [exists |-> FALSE, from |-> 0]
Digest(v) == v
StoredHash(p) == Digest(p.from)
FInit == gram \in Versions /\ parser = NoParser /\ justBuilt = FALSE
Edit(v) == v \in Versions /\ v # gram /\ gram' = v /\ justBuilt' = FALSE /\ UNCHANGED parser
\* somebody edits or replaces the checked-in parser with output generated from another version
Tamper(v) == v \in Versions /\ parser' = [exists |-> TRUE, from |-> v] /\ justBuilt' = FALSE /\ UNCHANGED gram
Build ==
  /\ IF parser.exists /\ StoredHash(parser) = Digest(gram)
     THEN UNCHANGED parser                                   \* "The .kiki file has not changed."
     ELSE parser' = [exists |-> TRUE, from |-> gram]         \* regenerate
  /\ justBuilt' = TRUE /\ UNCHANGED gram
FNext == (\E v \in Versions : Edit(v) \/ Tamper(v)) \/ Build
FSpec == FInit /\ [][FNext]_fvars
NeverStaleAfterBuild == justBuilt => (parser.exists /\ parser.from = gram)
=============================================================================
