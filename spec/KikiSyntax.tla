----------------------------- MODULE KikiSyntax -----------------------------
(***************************************************************************)
(* The published grammar of Kiki files (USER_GUIDE.md; kiki/src/parser.kiki *)
(* at the pinned revision), as a Cfg.tla grammar over the 17 token kinds   *)
(* the tokenizer produces.  This is the GRAMMAR OF RECORD inside the       *)
(* specification: C09 is judged against it, and a conformance step         *)
(* compares it with the rules kiki itself extracts from parser.kiki so     *)
(* that drift between the two is noticed.                                  *)
(***************************************************************************)
EXTENDS Naturals, Sequences
KR(l, r) == [lhs |-> l, rhs |-> r]
KikiTokens == {"$Underscore", "$Ident", "$TerminalIdent", "$OuterAttribute", "$StartKw", "$StructKw", "$EnumKw", "$TerminalKw",
               "$Colon", "$DoubleColon", "$Comma", "$LParen", "$RParen", "$LCurly", "$RCurly", "$LAngle", "$RAngle"}
KikiG == [
  nts |-> {"File", "OptItems", "FileItem", "Struct", "Enum", "TerminalEnum", "OptOuterAttributes", "Fieldset", "NamedFieldset", "NamedFields", "NamedField", "TupleFieldset", "TupleFields", "TupleField", "OptEnumVariants", "EnumVariant", "OptTerminalEnumVariants", "TerminalEnumVariant", "Type", "Path", "ComplexType", "CommaSeparatedTypes", "IdentOrUnderscore", "IdentOrTerminalIdent"},
  ts |-> KikiTokens,
  start |-> "File",
  rules |-> <<
    KR("File", <<"OptItems">>),
    KR("OptItems", <<>>),
    KR("OptItems", <<"OptItems","FileItem">>),
    KR("FileItem", <<"$StartKw","$Ident">>),
    KR("FileItem", <<"Struct">>),
    KR("FileItem", <<"Enum">>),
    KR("FileItem", <<"TerminalEnum">>),
    KR("Struct", <<"OptOuterAttributes","$StructKw","$Ident","Fieldset">>),
    KR("Enum", <<"OptOuterAttributes","$EnumKw","$Ident","$LCurly","OptEnumVariants","$RCurly">>),
    KR("TerminalEnum", <<"OptOuterAttributes","$TerminalKw","$Ident","$LCurly","OptTerminalEnumVariants","$RCurly">>),
    KR("OptOuterAttributes", <<>>),
    KR("OptOuterAttributes", <<"OptOuterAttributes","$OuterAttribute">>),
    KR("Fieldset", <<>>),
    KR("Fieldset", <<"NamedFieldset">>),
    KR("Fieldset", <<"TupleFieldset">>),
    KR("NamedFieldset", <<"$LCurly","NamedFields","$RCurly">>),
    KR("NamedFields", <<"NamedField">>),
    KR("NamedFields", <<"NamedFields","NamedField">>),
    KR("NamedField", <<"IdentOrUnderscore","$Colon","IdentOrTerminalIdent">>),
    KR("TupleFieldset", <<"$LParen","TupleFields","$RParen">>),
    KR("TupleFields", <<"TupleField">>),
    KR("TupleFields", <<"TupleFields","TupleField">>),
    KR("TupleField", <<"IdentOrTerminalIdent">>),
    KR("TupleField", <<"$Underscore","$Colon","IdentOrTerminalIdent">>),
    KR("OptEnumVariants", <<>>),
    KR("OptEnumVariants", <<"OptEnumVariants","EnumVariant">>),
    KR("EnumVariant", <<"$Ident","Fieldset">>),
    KR("OptTerminalEnumVariants", <<>>),
    KR("OptTerminalEnumVariants", <<"OptTerminalEnumVariants","TerminalEnumVariant">>),
    KR("TerminalEnumVariant", <<"$TerminalIdent","$Colon","Type">>),
    KR("Type", <<"$LParen","$RParen">>),
    KR("Type", <<"Path">>),
    KR("Type", <<"ComplexType">>),
    KR("Path", <<"$Ident">>),
    KR("Path", <<"Path","$DoubleColon","$Ident">>),
    KR("ComplexType", <<"Path","$LAngle","CommaSeparatedTypes","$RAngle">>),
    KR("CommaSeparatedTypes", <<"Type">>),
    KR("CommaSeparatedTypes", <<"CommaSeparatedTypes","$Comma","Type">>),
    KR("IdentOrUnderscore", <<"$Ident">>),
    KR("IdentOrUnderscore", <<"$Underscore">>),
    KR("IdentOrTerminalIdent", <<"$Ident">>),
    KR("IdentOrTerminalIdent", <<"$TerminalIdent">>)
  >> ]
=============================================================================
