------------------------------- MODULE LR1 -------------------------------
(***************************************************************************)
(* What "the LALR(1) automaton / tables of a grammar" MEANS:               *)
(* the canonical LR(1) collection (Knuth), merged by LR(0) core.           *)
(* This is the textbook definition, deliberately NOT the merge-on-the-fly  *)
(* worklist algorithm the implementation uses (that one is Builder.tla).   *)
(* Oracles for C04, C11, C17 and (CanonStop) for C03.                      *)
(*                                                                         *)
(* An item is a record [r, d, la]: rule number (0 = augmented rule         *)
(* S' -> start), dot position (0 = before the first symbol) and lookahead  *)
(* (a terminal or EOFSYM).                                                 *)
(***************************************************************************)
EXTENDS Cfg, TLC, Integers

Item(r, d, la) == [r |-> r, d |-> d, la |-> la]
Rhs(G, r) == IF r = 0 THEN <<G.start>> ELSE G.rules[r].rhs
AfterDot(G, it) == SubSeq(Rhs(G, it.r), it.d + 1, Len(Rhs(G, it.r)))
EndOf(G, it) == it.d = Len(Rhs(G, it.r))
NextSym(G, it) == Rhs(G, it.r)[it.d + 1]
QT(G) == G.ts \cup {EOFSYM}
Syms(G) == G.nts \cup G.ts

(***************************************************************************)
(* A context bundles a grammar with its FIRST map and nullable set so that *)
(* TLC computes them once per grammar.                                     *)
(***************************************************************************)
Ctx(G) == [G |-> G, F |-> First(G), NL |-> Nullable(G)]

ClosureStep(C, I) ==
  LET G == C.G IN
  I \cup UNION { LET ad == AfterDot(G, it) IN
                 IF ad = <<>> \/ Head(ad) \notin G.nts THEN {}
                 ELSE LET beta == Tail(ad)
                          las == FirstSeqT(G, C.F, C.NL, beta)
                                   \cup (IF SeqNullable(G, C.NL, beta) THEN {it.la} ELSE {})
                      IN UNION { { Item(j, 0, a) : a \in las } : j \in RulesOf(G, Head(ad)) }
               : it \in I }
RECURSIVE Closure(_, _)
Closure(C, I) == LET I2 == ClosureStep(C, I) IN IF I2 = I THEN I ELSE Closure(C, I2)

Advance(C, I, X) == { Item(it.r, it.d + 1, it.la) : it \in { i2 \in I : ~EndOf(C.G, i2) /\ NextSym(C.G, i2) = X } }
Goto(C, I, X) == Closure(C, Advance(C, I, X))
SymsRightOfDot(G, I) == { NextSym(G, it) : it \in { i2 \in I : ~EndOf(G, i2) } }

StartItems(C) == Closure(C, { Item(0, 0, EOFSYM) })

RECURSIVE CanonLFP(_, _)
CanonLFP(C, S) ==
  LET S2 == S \cup UNION { { Goto(C, I, X) : X \in SymsRightOfDot(C.G, I) } : I \in S }
  IN IF S2 = S THEN S ELSE CanonLFP(C, S2)
\* the canonical LR(1) collection
Canon(C) == CanonLFP(C, { StartItems(C) })

Core(I) == { <<it.r, it.d>> : it \in I }
MergeByCore(CC) == { UNION { J \in CC : Core(J) = Core(I) } : I \in CC }
\* the states of the LALR(1) automaton, as item sets
LALRStates(C) == MergeByCore(Canon(C))

\* the member of SS (a set of item sets with pairwise distinct cores) that has the core of J
WithCore(SS, J) == CHOOSE K \in SS : Core(K) = Core(J)
LALRGoto(C, LS, I, X) == WithCore(LS, Goto(C, I, X))
LALRStart(C, LS) == WithCore(LS, StartItems(C))
\* the transitions of the LALR(1) automaton as <<item set, symbol, item set>>
LALRTrans(C, LS) == UNION { { <<I, X, LALRGoto(C, LS, I, X)>> : X \in SymsRightOfDot(C.G, I) } : I \in LS }

(***************************************************************************)
(* Parser actions.  Acts(G, I, a) is the SET of actions the items of I     *)
(* demand on quasi-terminal a; a conflict is a set with two members.       *)
(* Every action is a pair <<kind, rule>> (rule = 0 when not a reduction)   *)
(* so that TLC can compare them.                                           *)
(***************************************************************************)
SHIFT == <<"shift", 0>>
ACCEPT == <<"accept", 0>>
REDUCE(r) == <<"reduce", r>>
\* the action item `it` demands on quasi-terminal a, as a set with zero or one member
ItemActs(G, it, a) ==
  IF ~EndOf(G, it) THEN (IF NextSym(G, it) = a THEN {SHIFT} ELSE {})
  ELSE IF it.r = 0 THEN (IF a = EOFSYM THEN {ACCEPT} ELSE {})
  ELSE IF it.la = a THEN {REDUCE(it.r)} ELSE {}
Acts(G, I, a) == UNION { ItemActs(G, it, a) : it \in I }
ConflictFreeIn(G, SS) == \A I \in SS : \A a \in QT(G) : Cardinality(Acts(G, I, a)) <= 1
\* C04: the grammar is LALR(1)
ConflictFree(C) == ConflictFreeIn(C.G, LALRStates(C))

ConflictClass(acts) ==
  IF Cardinality(acts) <= 1 THEN "none"
  ELSE IF ACCEPT \in acts THEN "accept-reduce"
  ELSE IF SHIFT \in acts THEN "shift-reduce"
  ELSE "reduce-reduce"
ConflictClasses(G, SS) == { ConflictClass(Acts(G, I, a)) : I \in SS, a \in QT(G) } \ {"none"}

\* C11: the two items really are in conflict in item set I
Genuine(G, I, i1, i2) ==
  /\ i1 \in I /\ i2 \in I
  /\ \E a \in QT(G) : /\ ItemActs(G, i1, a) # {} /\ ItemActs(G, i2, a) # {}
                      /\ ItemActs(G, i1, a) # ItemActs(G, i2, a)

(***************************************************************************)
(* Running an LR automaton given as a set of item sets.  Used with         *)
(* SS = Canon(C) (the canonical LR(1) parser, C03's fallback oracle) and   *)
(* SS = LALRStates(C).  Returns RefOutcome-shaped records.                 *)
(***************************************************************************)
GotoIn(C, SS, canonical, I, X) ==
  LET J == Goto(C, I, X) IN IF canonical THEN J ELSE WithCore(SS, J)

RECURSIVE RunLR(_, _, _, _, _, _)
RunLR(C, SS, canonical, stack, w, i) ==
  LET G == C.G
      a == IF i <= Len(w) THEN w[i] ELSE EOFSYM
      top == stack[Len(stack)]
      acts == Acts(G, top, a)
      stop == IF i <= Len(w) THEN [t |-> "err", at |-> i] ELSE [t |-> "eof", at |-> i]
  IN IF acts = {} THEN stop
     ELSE LET act == CHOOSE x \in acts : TRUE IN
       IF act = ACCEPT THEN [t |-> "acc", at |-> 0]
       ELSE IF act = SHIFT THEN RunLR(C, SS, canonical, Append(stack, GotoIn(C, SS, canonical, top, a)), w, i + 1)
       ELSE LET r == act[2]
                n == Len(G.rules[r].rhs)
                st2 == SubSeq(stack, 1, Len(stack) - n)
                A == G.rules[r].lhs
            IN IF A \notin SymsRightOfDot(G, st2[Len(st2)]) THEN stop
               ELSE RunLR(C, SS, canonical, Append(st2, GotoIn(C, SS, canonical, st2[Len(st2)], A)), w, i)

\* where the canonical LR(1) parser of G stops on w
CanonStop(C, w) == RunLR(C, Canon(C), TRUE, << StartItems(C) >>, w, 1)
LALRStop(C, LS, w) == RunLR(C, LS, FALSE, << LALRStart(C, LS) >>, w, 1)

(***************************************************************************)
(* C17: concrete tables T are the LALR(1) tables of G up to renumbering.   *)
(* T = [start, ts, nts, action, goto] with 0-based state numbers:          *)
(*   ts, nts  : sequences fixing the column order,                         *)
(*   action   : action[s+1][k] = <<kind, arg>> for quasi-terminal k        *)
(*              (k = Len(ts)+1 is end of input), kind in                   *)
(*              {"s","r","a","e"}, arg = target state / rule number / 0,   *)
(*   goto     : goto[s+1][k] = target state or -1.                         *)
(* The automaton is deterministic, so the correspondence between table     *)
(* states and item sets is found by walking both from their start states;  *)
(* no search over renumberings is needed.                                  *)
(***************************************************************************)
NStates(T) == Len(T.action)
QtSeq(T) == T.ts \o <<EOFSYM>>
ColOf(seq, x) == CHOOSE k \in DOMAIN seq : seq[k] = x

\* the table's successor of state s on symbol X, or -1
TableSucc(T, s, X) ==
  IF X \in SeqRange(T.nts) THEN T.goto[s + 1][ColOf(T.nts, X)]
  ELSE LET c == T.action[s + 1][ColOf(QtSeq(T), X)] IN IF c[1] = "s" THEN c[2] ELSE -1

RECURSIVE WalkLFP(_, _, _, _)
WalkLFP(C, LS, T, M) ==
  LET M2 == M \cup UNION { LET s == p[1] I == p[2] IN
                { <<TableSucc(T, s, X), LALRGoto(C, LS, I, X)>> :
                    X \in { Y \in SymsRightOfDot(C.G, I) : TableSucc(T, s, Y) \in 0..(NStates(T) - 1) } }
              : p \in M }
  IN IF M2 = M THEN M ELSE WalkLFP(C, LS, T, M2)

ExpectedCell(C, LS, inv, I, a) ==
  LET acts == Acts(C.G, I, a) IN
  IF acts = {} THEN <<"e", 0>>
  ELSE LET x == CHOOSE y \in acts : TRUE IN
       IF x = ACCEPT THEN <<"a", 0>>
       ELSE IF x = SHIFT THEN <<"s", inv[LALRGoto(C, LS, I, a)]>>
       ELSE <<"r", x[2]>>

\* returns [ok |-> BOOLEAN, why |-> STRING]
TablesMatchWhy(C, LS, T) ==
  LET G == C.G
      n == NStates(T)
      M == WalkLFP(C, LS, T, { <<T.start, LALRStart(C, LS)>> })
      dom == { p[1] : p \in M }
      img == { p[2] : p \in M }
  IN IF SeqRange(T.ts) # G.ts \/ Len(T.ts) # Cardinality(G.ts) THEN [ok |-> FALSE, why |-> "terminal columns differ from the grammar's terminals"]
     ELSE IF SeqRange(T.nts) # G.nts \/ Len(T.nts) # Cardinality(G.nts) THEN [ok |-> FALSE, why |-> "nonterminal columns differ from the grammar's nonterminals"]
     ELSE IF ~ConflictFreeIn(G, LS) THEN [ok |-> FALSE, why |-> "grammar is not LALR(1): some cell cannot hold all the actions the LALR(1) lookahead sets demand"]
     ELSE IF Len(T.goto) # n THEN [ok |-> FALSE, why |-> "action and goto tables have different numbers of rows"]
     ELSE IF T.start \notin 0..(n - 1) THEN [ok |-> FALSE, why |-> "start state out of range"]
     ELSE IF Cardinality(M) # Cardinality(dom) THEN [ok |-> FALSE, why |-> "one table state corresponds to two LALR states (states wrongly merged)"]
     ELSE IF Cardinality(M) # Cardinality(img) THEN [ok |-> FALSE, why |-> "two table states correspond to one LALR state (same core not merged)"]
     ELSE IF img # LS THEN [ok |-> FALSE, why |-> "some LALR state has no table state"]
     ELSE IF dom # 0..(n - 1) THEN [ok |-> FALSE, why |-> "table has states unreachable from its start state"]
     ELSE LET fwd == [s \in dom |-> (CHOOSE p \in M : p[1] = s)[2]]
              inv == [I \in img |-> (CHOOSE p \in M : p[2] = I)[1]]
              badAct == { <<s, a>> \in dom \X QT(G) :
                            T.action[s + 1][ColOf(QtSeq(T), a)] # ExpectedCell(C, LS, inv, fwd[s], a) }
              badGoto == { <<s, A>> \in dom \X G.nts :
                            T.goto[s + 1][ColOf(T.nts, A)] #
                              (IF A \in SymsRightOfDot(G, fwd[s]) THEN inv[LALRGoto(C, LS, fwd[s], A)] ELSE -1) }
          IN IF badAct # {} THEN [ok |-> FALSE, why |-> "action cell differs from the LALR(1) action"]
             ELSE IF badGoto # {} THEN [ok |-> FALSE, why |-> "goto cell differs from the LALR(1) transition"]
             ELSE [ok |-> TRUE, why |-> ""]
TablesMatch(C, LS, T) == TablesMatchWhy(C, LS, T).ok

(***************************************************************************)
(* The LALR(1) tables over an arbitrary but fixed numbering of the states, *)
(* as functions: act[<<state, quasi-terminal>>] = <<kind, arg>>,           *)
(* go[<<state, nonterminal>>] = target or -1.  cf says whether the         *)
(* automaton is conflict-free (otherwise act picks one of the demanded     *)
(* actions arbitrarily and must not be used).                              *)
(***************************************************************************)
RECURSIVE DAsSeq(_)
DAsSeq(S) == IF S = {} THEN <<>> ELSE LET x == CHOOSE y \in S : TRUE IN <<x>> \o DAsSeq(S \ {x})

DTables(C) ==
  LET G == C.G
      LS == LALRStates(C)
      sq == DAsSeq(LS)
      n == Len(sq)
      inv == [I \in LS |-> (CHOOSE k \in 1..n : sq[k] = I) - 1]
  IN [n |-> n, start |-> inv[LALRStart(C, LS)], cf |-> ConflictFreeIn(G, LS),
      act |-> [k \in (0..(n - 1)) \X QT(G) |-> ExpectedCell(C, LS, inv, sq[k[1] + 1], k[2])],
      go |-> [k \in (0..(n - 1)) \X G.nts |->
                 IF k[2] \in SymsRightOfDot(G, sq[k[1] + 1]) THEN inv[LALRGoto(C, LS, sq[k[1] + 1], k[2])] ELSE -1]]

(***************************************************************************)
(* A concrete automaton M = [start, states, trans] (0-based numbering,     *)
(* states a sequence of item sets, trans a set of <<from, sym, to>>) is    *)
(* the LALR(1) automaton of G up to renumbering.  Since states carry their *)
(* item sets, the correspondence is given.                                 *)
(***************************************************************************)
MachineMatchWhy(C, LS, M) ==
  LET n == Len(M.states)
      st == { M.states[i] : i \in 1..n }
      tr == { <<M.states[t[1] + 1], t[2], M.states[t[3] + 1]>> : t \in M.trans }
  IN IF Cardinality(st) # n THEN [ok |-> FALSE, why |-> "automaton has duplicate states"]
     ELSE IF st # LS THEN [ok |-> FALSE, why |-> "automaton states are not the LALR(1) item sets (cores or lookaheads differ)"]
     ELSE IF M.start \notin 0..(n - 1) \/ M.states[M.start + 1] # LALRStart(C, LS) THEN [ok |-> FALSE, why |-> "wrong start state"]
     ELSE IF tr # LALRTrans(C, LS) THEN [ok |-> FALSE, why |-> "automaton transitions are not the LALR(1) transitions"]
     ELSE [ok |-> TRUE, why |-> ""]
\* table-driven run: the same loop as Driver.tla, as a function of the whole input; nds is the node stack (Cfg trees)
RECURSIVE RunTab(_, _, _, _, _, _)
RunTab(G, tab, stk, nds, w, i) ==
  LET a == IF i <= Len(w) THEN w[i] ELSE EOFSYM
      c == tab.act[<<stk[Len(stk)], a>>]
      stop == IF i <= Len(w) THEN [t |-> "err", at |-> i, tree |-> Leaf("", 0)] ELSE [t |-> "eof", at |-> i, tree |-> Leaf("", 0)]
  IN IF c[1] = "e" THEN stop
     ELSE IF c[1] = "a" THEN [t |-> "acc", at |-> 0, tree |-> nds[Len(nds)]]
     ELSE IF c[1] = "s" THEN RunTab(G, tab, Append(stk, c[2]), Append(nds, Leaf(a, i)), w, i + 1)
     ELSE LET r == c[2]
              k == Len(G.rules[r].rhs)
              st2 == SubSeq(stk, 1, Len(stk) - k)
              nd2 == SubSeq(nds, 1, Len(nds) - k)
              kids == SubSeq(nds, Len(nds) - k + 1, Len(nds))
              to == tab.go[<<st2[Len(st2)], G.rules[r].lhs>>]
          IN IF to = -1 THEN stop ELSE RunTab(G, tab, Append(st2, to), Append(nd2, Node(r, kids)), w, i)
=============================================================================
