------------------------------- MODULE LexRef -------------------------------
(***************************************************************************)
(* The documented lexical grammar of Kiki (USER_GUIDE.md, C08), written    *)
(* DECLARATIVELY as a longest-match function over the whole source - no    *)
(* state machine, no pending token, no flush:                              *)
(*                                                                         *)
(*   - Unicode whitespace is skipped;                                      *)
(*   - `//` starts a comment that runs to the next line feed or the end;   *)
(*     a single `/` is an error at the slash;                              *)
(*   - an identifier is a maximal run [A-Za-z_][A-Za-z0-9_]*; the five     *)
(*     reserved words `_ start struct enum terminal` are their own tokens; *)
(*   - `$` followed by an identifier is a terminal identifier; a reserved  *)
(*     word after `$` is an error reported just past the word (with the    *)
(*     char found there, or end of input); a lone `$` is an error at it;   *)
(*   - `::` wins over `:`; `, ( ) { } < >` are single-char tokens;         *)
(*   - `#[` starts an outer attribute that extends to the bracket closing  *)
(*     the `[` (counting ( [ { against ) ] }), on the same line; inside    *)
(*     it, bracket KINDS must match; a lone `#` is an error at it;         *)
(*   - anything else is an error at that character.                        *)
(*                                                                         *)
(* The result is [ok, errs, out]: errs is the SET of admissible reports.   *)
(* It is a singleton when the text has one lexical fault; when an          *)
(* attribute is both unterminated (or broken by a newline) and contains a  *)
(* mismatched closer, either fault may be named "the first offending       *)
(* character", so both are admitted - the check never demands more than    *)
(* the property states.                                                    *)
(***************************************************************************)
EXTENDS LexCore

RECURSIVE RunEnd(_, _, _)     \* last index j >= i-1 such that src[i..j] are all identifier-continue chars
RunEnd(src, i, n) == IF i <= n /\ IsIdCont(src[i]) THEN RunEnd(src, i + 1, n) ELSE i - 1
RECURSIVE SkipComment(_, _, _) \* index just after the first line feed at or after i (or n+1)
SkipComment(src, i, n) == IF i > n THEN n + 1 ELSE IF src[i] = NLc THEN i + 1 ELSE SkipComment(src, i + 1, n)
RECURSIVE Bytes(_, _, _)      \* UTF-8 length of src[i..j]
Bytes(src, i, j) == IF i > j THEN 0 ELSE Utf8Len(src[i]) + Bytes(src, i + 1, j)

\* scan an attribute body from char i at depth d: <<"close", k>> | <<"nl", k>> | <<"eof", 0>>
RECURSIVE AttrScan(_, _, _, _)
AttrScan(src, i, n, d) ==
  IF i > n THEN <<"eof", 0>>
  ELSE LET c == src[i] IN
       IF c = NLc THEN <<"nl", i>>
       ELSE IF c \in Openers THEN AttrScan(src, i + 1, n, d + 1)
       ELSE IF c \in Closers THEN (IF d = 1 THEN <<"close", i>> ELSE AttrScan(src, i + 1, n, d - 1))
       ELSE AttrScan(src, i + 1, n, d)
\* first closer in src[i..k] that does not match the innermost open bracket (0 if none)
RECURSIVE FirstMismatch(_, _, _, _)
FirstMismatch(src, i, k, stack) ==
  IF i > k THEN 0
  ELSE LET c == src[i] IN
       IF c \in Openers THEN FirstMismatch(src, i + 1, k, Append(stack, c))
       ELSE IF c \in Closers THEN
            IF stack # <<>> /\ Match(stack[Len(stack)], c) THEN FirstMismatch(src, i + 1, k, SubSeq(stack, 1, Len(stack) - 1)) ELSE i
       ELSE FirstMismatch(src, i + 1, k, stack)

Bad(errs, out) == [ok |-> FALSE, errs |-> errs, out |-> out]

\* i: char index, o: its byte offset
RECURSIVE Ref(_, _, _, _)
Ref(src, i, o, out) ==
  LET n == Len(src) IN
  IF i > n THEN [ok |-> TRUE, errs |-> {}, out |-> out]
  ELSE LET c == src[i]
           nxt == IF i < n THEN src[i + 1] ELSE NONE
           cl == Utf8Len(c)
       IN
       IF IsWs(c) THEN Ref(src, i + 1, o + cl, out)
       ELSE IF c = SLASH THEN
              IF nxt = SLASH THEN LET j == SkipComment(src, i + 2, n) IN Ref(src, j, o + Bytes(src, i, j - 1), out)
              ELSE Bad({ERR(o, SLASH)}, out)
       ELSE IF IsIdStart(c) THEN
              LET j == RunEnd(src, i + 1, n) rk == ReservedKind(SubSeq(src, i, j)) len == j - i + 1 IN
              Ref(src, j + 1, o + len, Append(out, Tok(IF rk = "none" THEN "Ident" ELSE rk, o, len)))
       ELSE IF c = DOLLAR THEN
              IF nxt # NONE /\ IsIdStart(nxt) THEN
                 LET j == RunEnd(src, i + 2, n) len == j - i + 1 IN
                 IF ReservedKind(SubSeq(src, i + 1, j)) # "none"
                 THEN Bad({ERR(o + len, IF j < n THEN src[j + 1] ELSE NONE)}, out)
                 ELSE Ref(src, j + 1, o + len, Append(out, Tok("TerminalIdent", o, len)))
              ELSE Bad({ERR(o, DOLLAR)}, out)
       ELSE IF c = COLON THEN
              IF nxt = COLON THEN Ref(src, i + 2, o + 2, Append(out, Tok("DoubleColon", o, 2)))
              ELSE Ref(src, i + 1, o + 1, Append(out, Tok("Colon", o, 1)))
       ELSE IF PunctKind(c) # "none" THEN Ref(src, i + 1, o + 1, Append(out, Tok(PunctKind(c), o, 1)))
       ELSE IF c = POUND THEN
              IF nxt = LBRACK THEN
                 LET sc == AttrScan(src, i + 2, n, 1) IN
                 IF sc[1] = "eof" THEN
                    LET mm == FirstMismatch(src, i + 1, n, <<>>) IN
                    Bad({ERR(o + Bytes(src, i, n), NONE)} \cup (IF mm = 0 THEN {} ELSE {ERR(o + Bytes(src, i, mm - 1), src[mm])}), out)
                 ELSE IF sc[1] = "nl" THEN
                    LET mm == FirstMismatch(src, i + 1, sc[2] - 1, <<>>) IN
                    Bad({ERR(o + Bytes(src, i, sc[2] - 1), NLc)} \cup (IF mm = 0 THEN {} ELSE {ERR(o + Bytes(src, i, mm - 1), src[mm])}), out)
                 ELSE LET k == sc[2] mm == FirstMismatch(src, i + 1, k, <<>>) len == Bytes(src, i, k) IN
                      IF mm # 0 THEN Bad({ERR(o + Bytes(src, i, mm - 1), src[mm])}, out)
                      ELSE Ref(src, k + 1, o + len, Append(out, Tok("OuterAttribute", o, len)))
              ELSE Bad({ERR(o, POUND)}, out)
       ELSE Bad({ERR(o, c)}, out)
RefLex(src) == Ref(src, 1, 0, <<>>)

\* does a concrete result [res, out] (res = OK or ERR) satisfy the lexical rules for src?
Admissible(src, res, out) ==
  LET r == RefLex(src) IN
  IF res = OK THEN r.ok /\ out = r.out
  ELSE ~r.ok /\ res \in r.errs
=============================================================================
