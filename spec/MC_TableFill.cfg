SPECIFICATION Spec
INVARIANT LookupsDefined
INVARIANT VerdictRight
INVARIANT WitnessGenuine
INVARIANT FinalTableIsLALR
INVARIANT FillOrderIrrelevant
VIEW TView
CHECK_DEADLOCK FALSE
