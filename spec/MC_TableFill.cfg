SPECIFICATION Spec
INVARIANT LookupsDefined
INVARIANT VerdictRight
INVARIANT WitnessGenuine
INVARIANT FinalTableIsLALR
VIEW TView
CHECK_DEADLOCK FALSE
