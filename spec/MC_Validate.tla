---------------------------- MODULE MC_Validate ----------------------------
(***************************************************************************)
(* Exploration of the files within DEPTH edits of a few valid base files.  *)
(* One edit = rename one identifier occurrence to another pool name (this  *)
(* covers case swaps, clashes, undefined references), toggle `$` on a      *)
(* field symbol, duplicate or delete an item / variant / field / terminal  *)
(* variant, or append a `start`.  Files with several simultaneous          *)
(* violations arise naturally at depth >= 2.                               *)
(* Invariant: the operational Run(f) is sound w.r.t. the declarative       *)
(* Truthful/HasViolation.  With PRINT=1 every file is printed: the replay  *)
(* set for the real generate.                                              *)
(***************************************************************************)
EXTENDS Validate, TLC, Json, IOUtils

Pool == {"A", "B", "C", "T", "V", "a", "b", "_A", "_a", "_1"}
UpperImpl(n) == n \in {"A", "B", "C", "D", "T", "V", "W", "_A"}
LowerImpl(n) == n \in {"a", "b", "_a"}

F(fname, sym, dollar) == [fname |-> fname, sym |-> sym, dollar |-> dollar]
Vr(vname, style, fields) == [vname |-> vname, style |-> style, fields |-> fields]
\* struct with named fields (one skipped) + enum with a tuple and an empty variant
Base1 == [starts |-> <<"A">>, tenums |-> <<[name |-> "T", vars |-> <<"C", "D">>]>>,
          nts |-> << [kind |-> "struct", name |-> "A", vars |-> <<Vr("", "named", <<F("a", "C", TRUE), F("_", "B", FALSE)>>)>>],
                     [kind |-> "enum", name |-> "B", vars |-> <<Vr("V", "tuple", <<F("", "A", FALSE)>>), Vr("W", "empty", <<>>)>>] >>]
\* tuple struct, enum with named variant, variant-less enum
Base2 == [starts |-> <<"B">>, tenums |-> <<[name |-> "T", vars |-> <<"C">>]>>,
          nts |-> << [kind |-> "struct", name |-> "A", vars |-> <<Vr("", "tuple", <<F("_", "C", TRUE), F("", "V", FALSE)>>)>>],
                     [kind |-> "enum", name |-> "B", vars |-> <<Vr("A", "named", <<F("b", "A", FALSE)>>), Vr("B", "tuple", <<F("", "C", TRUE), F("", "C", TRUE)>>)>>],
                     [kind |-> "enum", name |-> "V", vars |-> <<>>] >>]
\* an enum with THREE variants of different shapes (so that one rename yields equally named variants that are not adjacent,
\* and one toggle yields sequences that differ only in `$`), referenced from a tuple struct with two symbols
Base3 == [starts |-> <<"A">>, tenums |-> <<[name |-> "T", vars |-> <<"C", "D">>]>>,
          nts |-> << [kind |-> "struct", name |-> "A", vars |-> <<Vr("", "tuple", <<F("", "B", FALSE), F("", "C", TRUE)>>)>>],
                     [kind |-> "enum", name |-> "B", vars |-> <<Vr("V", "tuple", <<F("", "C", TRUE)>>), Vr("W", "empty", <<>>),
                                                               Vr("C", "named", <<F("a", "D", TRUE), F("_", "C", TRUE)>>)>>] >>]
Bases == {Base1, Base2, Base3}
Depth == atoi(IOEnv.DEPTH)

VARIABLES f, d
Init == f \in Bases /\ d = 0

DupAt(s, i) == SubSeq(s, 1, i) \o <<s[i]>> \o SubSeq(s, i + 1, Len(s))
DelAt(s, i) == SubSeq(s, 1, i - 1) \o SubSeq(s, i + 1, Len(s))

AllSites == StartSites(f) \cup TenumSites(f) \cup TvarSites(f) \cup NtSites(f) \cup VarSites(f)
            \cup { Site("fsym", t[1], t[2], t[3]) : t \in FieldIdx(f) }
            \cup { Site("fname", t[1], t[2], t[3]) : t \in { u \in FieldIdx(f) : f.nts[u[1]].vars[u[2]].style = "named" } }
Renamed(s, n) ==
  CASE s[1] = "start" -> [f EXCEPT !.starts[s[2]] = n]
    [] s[1] = "tenum" -> [f EXCEPT !.tenums[s[2]].name = n]
    [] s[1] = "tvar" -> [f EXCEPT !.tenums[s[2]].vars[s[3]] = n]
    [] s[1] = "nt" -> [f EXCEPT !.nts[s[2]].name = n]
    [] s[1] = "var" -> [f EXCEPT !.nts[s[2]].vars[s[3]].vname = n]
    [] s[1] = "fname" -> [f EXCEPT !.nts[s[2]].vars[s[3]].fields[s[4]].fname = n]
    [] s[1] = "fsym" -> [f EXCEPT !.nts[s[2]].vars[s[3]].fields[s[4]].sym = n]
Step(g) == d < Depth /\ f' = g /\ d' = d + 1
Rename == \E s \in AllSites : \E n \in Pool \cup (IF s[1] = "fname" THEN {"_"} ELSE {}) : n # NameAt(f, s) /\ Step(Renamed(s, n))
Toggle == \E t \in FieldIdx(f) : Step([f EXCEPT !.nts[t[1]].vars[t[2]].fields[t[3]].dollar = ~@])
DupDel ==
  \/ \E i \in DOMAIN f.starts : Step([f EXCEPT !.starts = DupAt(@, i)]) \/ Step([f EXCEPT !.starts = DelAt(@, i)])
  \/ \E i \in DOMAIN f.tenums : Step([f EXCEPT !.tenums = DupAt(@, i)]) \/ Step([f EXCEPT !.tenums = DelAt(@, i)])
  \/ \E i \in DOMAIN f.nts : Step([f EXCEPT !.nts = DupAt(@, i)]) \/ Step([f EXCEPT !.nts = DelAt(@, i)])
  \/ \E i \in DOMAIN f.tenums : \E j \in DOMAIN f.tenums[i].vars :
        Step([f EXCEPT !.tenums[i].vars = DupAt(@, j)]) \/ Step([f EXCEPT !.tenums[i].vars = DelAt(@, j)])
  \/ \E i \in DOMAIN f.nts : f.nts[i].kind = "enum" /\ \E j \in DOMAIN f.nts[i].vars :
        Step([f EXCEPT !.nts[i].vars = DupAt(@, j)]) \/ Step([f EXCEPT !.nts[i].vars = DelAt(@, j)])
  \/ \E t \in FieldIdx(f) :
        \/ Step([f EXCEPT !.nts[t[1]].vars[t[2]].fields = DupAt(@, t[3])])
        \/ Step([f EXCEPT !.nts[t[1]].vars[t[2]] = IF Len(@.fields) = 1 THEN Vr(@.vname, "empty", <<>>) ELSE [@ EXCEPT !.fields = DelAt(@, t[3])]])
AddStart == \E n \in {"A", "B", "a"} : Step([f EXCEPT !.starts = Append(@, n)])
Next == Rename \/ Toggle \/ DupDel \/ AddStart

Sound == RunSound(f)
PrintFiles == IOEnv.PRINT = "1" => PrintT(<<"FILE", ToJson([f |-> f, run |-> Run(f), bad |-> HasViolation(f)])>>)
View == f
=============================================================================
