------------------------------ MODULE Hygiene ------------------------------
(***************************************************************************)
(* Name hygiene of the emitted module (C05).                               *)
(*                                                                         *)
(* PART 1 - the identifier allocator (create_unique_identifier): a         *)
(* sequential process over a growing `used` set; twelve requests in the    *)
(* order SrcBuilder::new makes them.  Preferred name if free, else         *)
(* name2, name3, ...                                                       *)
(*                                                                         *)
(* PART 2 - the emitted module as BINDING sites per namespace/scope and    *)
(* the USE sites that go through a bare name, with Rust's resolution rule  *)
(* (innermost scope first; generic parameters shadow module items inside   *)
(* the function).  Hygiene: no namespace binds a name twice, and every use *)
(* site resolves to the binding the generator intended.                    *)
(*                                                                         *)
(* A naming is a record of the user's identifiers:                         *)
(*   tenum            terminal enum name                                   *)
(*   terms            sequence of terminal names                           *)
(*   nts              sequence of [name, kind, variants, fields]           *)
(*                    kind: "unit" | "tuple" | "named" (structs) | "enum"  *)
(*                    variants: sequence of variant names (enums)          *)
(*                    fields: sequence of field names (named structs)      *)
(*   start            name of the start nonterminal                        *)
(***************************************************************************)
EXTENDS Naturals, Sequences, FiniteSets, TLC

SeqSet(s) == { s[i] : i \in DOMAIN s }
Requests == <<"Eof", "Quasiterminal", "QuasiterminalKind", "NonterminalKind", "State", "Node", "Action", "RuleKind",
              "reduce", "ACTION_TABLE", "GOTO_TABLE", "S">>

NtNames(n) == { n.nts[i].name : i \in DOMAIN n.nts }
\* file.get_defined_identifiers(): nonterminal names, terminal variant names, the terminal enum name
Used0(n) == NtNames(n) \cup SeqSet(n.terms) \cup {n.tenum}

RECURSIVE FirstFree(_, _, _)
FirstFree(pref, used, i) == LET c == pref \o ToString(i) IN IF c \notin used THEN c ELSE FirstFree(pref, used, i + 1)
Alloc(pref, used) == IF pref \notin used THEN pref ELSE FirstFree(pref, used, 2)

VARIABLES nm,      \* the naming
          used,    \* identifiers taken so far
          chosen   \* names allocated so far (sequence, one per request served)
hvars == <<nm, used, chosen>>
HInit(Namings) == nm \in Namings /\ used = Used0(nm) /\ chosen = <<>>
AllocNext ==
  /\ Len(chosen) < Len(Requests)
  /\ LET c == Alloc(Requests[Len(chosen) + 1], used) IN
       /\ chosen' = Append(chosen, c) /\ used' = used \cup {c}
  /\ UNCHANGED nm
Done == Len(chosen) = Len(Requests)

\* allocator properties, in every state
FreshDistinct == \A i, j \in DOMAIN chosen : i # j => chosen[i] # chosen[j]
FreshAvoidUser == \A i \in DOMAIN chosen : chosen[i] \notin Used0(nm)

(***************************************************************************)
(* PART 2.  N(k) is the k-th chosen name, by request.                      *)
(***************************************************************************)
N(req) == chosen[CHOOSE i \in DOMAIN Requests : Requests[i] = req]
Internal == { N("Quasiterminal"), N("QuasiterminalKind"), N("NonterminalKind"), N("State"), N("Node"), N("Action"), N("RuleKind") }

NoDupSeq(s) == \A i, j \in DOMAIN s : i # j => s[i] # s[j]
AsSeq(S) == CHOOSE s \in [1..Cardinality(S) -> S] : SeqSet(s) = S

\* module level, type namespace: user types and the seven internal enums
ModuleTypes == [i \in DOMAIN nm.nts |-> nm.nts[i].name] \o <<nm.tenum>> \o AsSeq(Internal)
\* module level, value namespace: functions, statics, and the constructors of unit-like and tuple structs
NRules == LET RECURSIVE Cnt(_)
              Cnt(i) == IF i > Len(nm.nts) THEN 0 ELSE (IF nm.nts[i].kind = "enum" THEN Len(nm.nts[i].variants) ELSE 1) + Cnt(i + 1)
          IN Cnt(1)
ReduceFns == [r \in 1..NRules |-> N("reduce") \o "_r" \o ToString(r - 1)]
StructCtors == LET idx == { i \in DOMAIN nm.nts : nm.nts[i].kind \in {"unit", "tuple"} } IN [k \in 1..Cardinality(idx) |-> nm.nts[AsSeq(idx)[k]].name]
ModuleValues == <<"parse", "pop_and_reduce", "get_action", "get_goto", N("ACTION_TABLE"), N("GOTO_TABLE")>> \o ReduceFns \o StructCtors
\* variant namespaces of the internal enums
NodeVariants == [i \in DOMAIN nm.nts |-> nm.nts[i].name] \o nm.terms
QKindVariants == nm.terms \o <<N("Eof")>>
QVariants == <<"Terminal", N("Eof")>>
NKindVariants == [i \in DOMAIN nm.nts |-> nm.nts[i].name]

NoDuplicateBindings ==
  /\ NoDupSeq(ModuleTypes) /\ NoDupSeq(ModuleValues)
  /\ NoDupSeq(NodeVariants) /\ NoDupSeq(QKindVariants) /\ NoDupSeq(QVariants) /\ NoDupSeq(NKindVariants)
  /\ \A i \in DOMAIN nm.nts : nm.nts[i].kind = "enum" => NoDupSeq(nm.nts[i].variants)

\* inside `parse`, the generic parameter shadows a module-level type of the same name
TypesUsedInParse == { nm.start, nm.tenum, N("Quasiterminal"), N("QuasiterminalKind"), N("State"), N("Node"), N("Action") }
ResolveInParse(name) == IF name = N("S") THEN "generic parameter" ELSE "module item"
ParseResolves == \A t \in TypesUsedInParse : ResolveInParse(t) = "module item"

\* `impl TryFrom<Node> for X`: the error type is written `Self::Error` unless X is an enum with a variant called Error
\* (then `Self::Error` would be ambiguous between the variant and the associated type, and Node is named directly)
ErrorSpelling(x) == IF x.kind = "enum" /\ "Error" \in SeqSet(x.variants) THEN N("Node") ELSE "Self::Error"
TryFromUnambiguous ==
  \A i \in DOMAIN nm.nts : ErrorSpelling(nm.nts[i]) = "Self::Error" => ~(nm.nts[i].kind = "enum" /\ "Error" \in SeqSet(nm.nts[i].variants))

\* every local the template introduces contains a lowercase ASCII letter as its first letter; user types, variants and
\* terminals start with an uppercase letter or have no letter at all (validation), so no local can capture a type-level
\* name; field locals are <field>_<index> or t<index>, distinct from the fixed locals because those carry no numeric suffix.
FixedLocals == {"src", "quasiterminals", "states", "nodes", "top_state", "next_quasiterminal_kind", "new_state", "rule_kind",
                "new_node", "new_node_kind", "temp_top_state", "_states", "_nodes", "terminal", "quasiterminal", "node", "n", "t"}
FieldLocals == UNION { { nm.nts[i].fields[k] \o "_" \o ToString(k - 1) : k \in DOMAIN nm.nts[i].fields } : i \in DOMAIN nm.nts }
LocalsDistinct == FieldLocals \cap FixedLocals = {}

Hygienic == Done => (NoDuplicateBindings /\ ParseResolves /\ TryFromUnambiguous /\ LocalsDistinct)
=============================================================================
