SPECIFICATION FifoSpec
INVARIANT NormalFormIsCanonical
VIEW BView
CHECK_DEADLOCK FALSE
