INIT Init
NEXT Next
INVARIANT Laws
INVARIANT PrintCases
CHECK_DEADLOCK FALSE
