-------------------------------- MODULE Emit --------------------------------
(***************************************************************************)
(* What table_to_rust writes for the USER-VISIBLE part of the module, as   *)
(* an abstract syntax (not text): the shape of every emitted type          *)
(* (C06), where outer attributes go (C12) and how a payload type is        *)
(* spelled (C13).  The text of the real emitted module is parsed back into *)
(* the same abstract syntax by the driver and compared.                    *)
(***************************************************************************)
EXTENDS Naturals, Sequences, FiniteSets

(***************************************************************************)
(* C06 - type shapes.                                                      *)
(* A declaration's fieldset: [ctor, style, fields] with ctor "struct" |    *)
(* "variant", style "named" | "tuple" | "empty", fields a sequence of      *)
(* [used, term, name]: used = not written `_`; term = the symbol is a      *)
(* terminal; name = the field's name ("" in tuple fieldsets).              *)
(* The emitted item: [form, fields] with form "unit" | "tuple" | "braced"  *)
(* and fields a sequence of [pub, name, box]: `pub` written, field name    *)
(* ("" for tuple), wrapped in Box (then the type is the nonterminal) or    *)
(* the terminal's payload type.                                            *)
(***************************************************************************)
RECURSIVE SelectUsed(_)
SelectUsed(fs) == IF fs = <<>> THEN <<>>
                  ELSE (IF Head(fs).used THEN <<Head(fs)>> ELSE <<>>) \o SelectUsed(Tail(fs))

Shape(decl) ==
  LET used == SelectUsed(decl.fields) IN
  IF used = <<>> THEN [form |-> "unit", fields |-> <<>>]     \* empty fieldset, or only `_` fields
  ELSE [form |-> IF decl.style = "named" THEN "braced" ELSE "tuple",
        fields |-> [k \in DOMAIN used |->
                     [pub |-> decl.ctor = "struct",            \* struct fields are public, named AND tuple; variant fields need no `pub`
                      name |-> IF decl.style = "named" THEN used[k].name ELSE "",
                      box |-> ~used[k].term]]]                \* Box exactly on nonterminal-typed fields

\* the laws C06 states, as properties of Shape
ShapeLaws(decl) ==
  LET s == Shape(decl) used == SelectUsed(decl.fields) IN
  /\ (s.form = "unit") = (\A k \in DOMAIN decl.fields : ~decl.fields[k].used)
  /\ Len(s.fields) = Len(used)
  /\ \A k \in DOMAIN s.fields : /\ s.fields[k].box = ~used[k].term
                                /\ s.fields[k].pub = (decl.ctor = "struct")
                                /\ (decl.style = "named" => s.fields[k].name = used[k].name)

(***************************************************************************)
(* C12 - outer attributes: the attribute list of a declaration appears, in *)
(* order, as the lines immediately before the item that declaration        *)
(* becomes, and nowhere else.                                              *)
(* A module is a sequence of lines [kind, text]: kind "attr" | "item" |    *)
(* "other"; for an item, text is its declaration's name.                   *)
(***************************************************************************)
\* the attribute lines immediately preceding line i
RECURSIVE AttrsBefore(_, _)
AttrsBefore(lines, i) ==
  IF i <= 1 \/ lines[i - 1].kind # "attr" THEN <<>>
  ELSE Append(AttrsBefore(lines, i - 1), lines[i - 1].text)
\* decls: sequence of [name, attrs]
AttrPlacementOK(decls, lines) ==
  /\ \A d \in DOMAIN decls :
        \E i \in DOMAIN lines : lines[i].kind = "item" /\ lines[i].text = decls[d].name
                                 /\ AttrsBefore(lines, i) = decls[d].attrs
  \* nowhere else: every attribute line belongs to the run in front of some item
  /\ \A i \in DOMAIN lines : lines[i].kind = "attr" =>
        \E j \in DOMAIN lines : j > i /\ lines[j].kind = "item" /\ \A m \in i..(j - 1) : lines[m].kind = "attr"
  /\ Cardinality({ i \in DOMAIN lines : lines[i].kind = "attr" }) = Cardinality(UNION { { <<d, k>> : k \in DOMAIN decls[d].attrs } : d \in DOMAIN decls })
\* what the emitter writes for a list of declarations: attributes, then the item
RECURSIVE EmitDecls(_)
EmitDecls(decls) ==
  IF decls = <<>> THEN <<>>
  ELSE [k \in DOMAIN Head(decls).attrs |-> [kind |-> "attr", text |-> Head(decls).attrs[k]]]
       \o <<[kind |-> "item", text |-> Head(decls).name]>> \o <<[kind |-> "other", text |-> ""]>> \o EmitDecls(Tail(decls))

(***************************************************************************)
(* C13 - payload types.  A type is unit, a path, or a path applied to      *)
(* arguments: [k |-> "unit"] | [k |-> "path", path] | [k |-> "app", path,  *)
(* args].  TypeTokens is its token sequence; the emitted spelling must     *)
(* tokenise to exactly this at every use site.                             *)
(***************************************************************************)
RECURSIVE PathTokens(_)
PathTokens(p) == IF Len(p) = 1 THEN <<p[1]>> ELSE <<p[1], "::">> \o PathTokens(Tail(p))
RECURSIVE TypeTokens(_)
TypeTokens(t) ==
  IF t.k = "unit" THEN <<"(", ")">>
  ELSE IF t.k = "path" THEN PathTokens(t.path)
  ELSE LET RECURSIVE Args(_)
           Args(i) == IF i > Len(t.args) THEN <<>>
                      ELSE (IF i > 1 THEN <<",">> ELSE <<>>) \o TypeTokens(t.args[i]) \o Args(i + 1)
       IN PathTokens(t.path) \o <<"<">> \o Args(1) \o <<">">>
=============================================================================
