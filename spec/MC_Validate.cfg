CONSTANTS
  Upper <- UpperImpl
  Lower <- LowerImpl
INIT Init
NEXT Next
INVARIANT Sound
INVARIANT PrintFiles
VIEW View
CHECK_DEADLOCK FALSE
