---------------------------- MODULE MC_FirstSets ----------------------------
(* FirstSets.tla on every grammar of a bounded universe and the classics (rule ORDER matters to the pass structure: the
   universes list the rules of the start symbol first, the most hostile order for facts that flow upwards). *)
EXTENDS FirstSets, Universe, Classics, IOUtils
UPick == CASE IOEnv.UNIVERSE = "U1" -> U1 [] IOEnv.UNIVERSE = "U2" -> U2 [] IOEnv.UNIVERSE = "U3b" -> U3b [] IOEnv.UNIVERSE = "none" -> {}
Init == FInit(UPick \cup ClassicSet)
Spec == Init /\ [][FNext]_fvars
\* termination: FBounded bounds the number of passes, every pass is finite (frule counts up to Len(rules) + 1)
=============================================================================
