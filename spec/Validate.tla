------------------------------ MODULE Validate ------------------------------
(***************************************************************************)
(* Static well-formedness of a syntactically valid Kiki file (C10).        *)
(*                                                                         *)
(* An abstract file keeps what validation can look at:                     *)
(*   starts : sequence of names                 (`start X` items)          *)
(*   tenums : sequence of [name, vars]          (`terminal N { $v: T }`)   *)
(*   nts    : sequence of [kind, name, vars]    kind "struct" | "enum";    *)
(*            vars: sequence of [vname, style, fields]; a struct has       *)
(*            exactly one var (vname unused); style "named"|"tuple"|       *)
(*            "empty"; fields: sequence of [fname, sym, dollar]            *)
(*            fname: field name, "_" (skipped) or "" (used tuple field);   *)
(*            sym: the symbol's identifier; dollar: written with `$`.      *)
(* Every identifier occurrence is a SITE <<kind, i, j, k>>, which stands   *)
(* for its byte position in the rendered text:                             *)
(*   <<"start",i,0,0>> <<"tenum",i,0,0>> <<"tvar",i,j,0>> <<"nt",i,0,0>>   *)
(*   <<"var",i,j,0>> <<"fname",i,j,k>> <<"fsym",i,j,k>>                    *)
(*                                                                         *)
(* DECLARATIVE part: Truthful(f, e) - error report e describes a           *)
(* violation really present in f at the positions it carries - and         *)
(* HasViolation(f).  One clause per KikiErr validation variant.  Note the  *)
(* two NAMESPACES: a nonterminal reference must name a struct/enum, a      *)
(* `$` reference must name a terminal variant.                             *)
(* OPERATIONAL part: Run(f), the checks in the order validate_ast performs *)
(* them, returning "ok" or the first error.                                *)
(***************************************************************************)
EXTENDS Naturals, Sequences, FiniteSets

Site(kind, i, j, k) == <<kind, i, j, k>>
Err(v, name, syms, pos) == [v |-> v, name |-> name, syms |-> syms, pos |-> pos]
OkRes == Err("ok", "", <<>>, <<>>)

\* first ASCII letter of a name decides its case: names are given with their class
\* Upper(n) / Lower(n): first letter is upper / lower case; neither: the name has no letter
CONSTANTS Upper(_), Lower(_)

SeqToSet(s) == { s[i] : i \in DOMAIN s }
SymOf(fld) == IF fld.dollar THEN "$" \o fld.sym ELSE fld.sym      \* symbols as they appear in error payloads

(***************************************************************************)
(* Definition and reference sites                                          *)
(***************************************************************************)
StartSites(f) == { Site("start", i, 0, 0) : i \in DOMAIN f.starts }
TenumSites(f) == { Site("tenum", i, 0, 0) : i \in DOMAIN f.tenums }
NtSites(f) == { Site("nt", i, 0, 0) : i \in DOMAIN f.nts }
TvarSites(f) == UNION { { Site("tvar", i, j, 0) : j \in DOMAIN f.tenums[i].vars } : i \in DOMAIN f.tenums }
VarSites(f) == UNION { IF f.nts[i].kind = "enum" THEN { Site("var", i, j, 0) : j \in DOMAIN f.nts[i].vars } ELSE {} : i \in DOMAIN f.nts }
FieldIdx(f) == UNION { UNION { { <<i, j, k>> : k \in DOMAIN f.nts[i].vars[j].fields } : j \in DOMAIN f.nts[i].vars } : i \in DOMAIN f.nts }
Fld(f, t) == f.nts[t[1]].vars[t[2]].fields[t[3]]

NameAt(f, s) ==
  CASE s[1] = "start" -> f.starts[s[2]]
    [] s[1] = "tenum" -> f.tenums[s[2]].name
    [] s[1] = "tvar" -> f.tenums[s[2]].vars[s[3]]
    [] s[1] = "nt" -> f.nts[s[2]].name
    [] s[1] = "var" -> f.nts[s[2]].vars[s[3]].vname
    [] s[1] = "fname" -> f.nts[s[2]].vars[s[3]].fields[s[4]].fname
    [] s[1] = "fsym" -> f.nts[s[2]].vars[s[3]].fields[s[4]].sym

NonterminalNames(f) == { f.nts[i].name : i \in DOMAIN f.nts }
TerminalNames(f) == UNION { SeqToSet(f.tenums[i].vars) : i \in DOMAIN f.tenums }
\* top-level definition sites: nonterminal names, terminal variant names, terminal enum names
TopDefSites(f) == NtSites(f) \cup TvarSites(f) \cup TenumSites(f)
\* sites whose name must start with an uppercase letter (if it has a letter)
UpperSites(f) == TenumSites(f) \cup TvarSites(f) \cup NtSites(f) \cup VarSites(f)
\* named fields with a real name
FnameSites(f) == { Site("fname", t[1], t[2], t[3]) : t \in { u \in FieldIdx(f) : f.nts[u[1]].vars[u[2]].style = "named" /\ Fld(f, u).fname # "_" } }
SymSeq(v) == [k \in DOMAIN v.fields |-> SymOf(v.fields[k])]

(***************************************************************************)
(* Truthful(f, e)                                                          *)
(***************************************************************************)
Distinct2(p) == Len(p) = 2 /\ p[1] # p[2]
Truthful(f, e) ==
  CASE e.v = "NoStartSymbol" -> f.starts = <<>>
    [] e.v = "MultipleStartSymbols" ->
         Len(f.starts) >= 2 /\ Cardinality(SeqToSet(e.pos)) >= 2 /\ SeqToSet(e.pos) \subseteq StartSites(f)
    [] e.v = "NoTerminalEnum" -> f.tenums = <<>>
    [] e.v = "MultipleTerminalEnums" ->
         Len(f.tenums) >= 2 /\ Cardinality(SeqToSet(e.pos)) >= 2 /\ SeqToSet(e.pos) \subseteq TenumSites(f)
    [] e.v = "NotUppercase" -> Len(e.pos) = 1 /\ e.pos[1] \in UpperSites(f) /\ Lower(NameAt(f, e.pos[1]))
    [] e.v = "NotLowercase" -> Len(e.pos) = 1 /\ e.pos[1] \in FnameSites(f) /\ Upper(NameAt(f, e.pos[1]))
    [] e.v = "NameClash" ->
         /\ Distinct2(e.pos) /\ SeqToSet(e.pos) \subseteq TopDefSites(f)
         /\ NameAt(f, e.pos[1]) = e.name /\ NameAt(f, e.pos[2]) = e.name
    [] e.v = "VariantNameClash" ->
         /\ Distinct2(e.pos) /\ SeqToSet(e.pos) \subseteq VarSites(f)
         /\ e.pos[1][2] = e.pos[2][2]                              \* same enum
         /\ NameAt(f, e.pos[1]) = e.name /\ NameAt(f, e.pos[2]) = e.name
    [] e.v = "VariantSeqClash" ->
         /\ Distinct2(e.pos) /\ SeqToSet(e.pos) \subseteq VarSites(f)
         /\ e.pos[1][2] = e.pos[2][2]
         /\ SymSeq(f.nts[e.pos[1][2]].vars[e.pos[1][3]]) = e.syms
         /\ SymSeq(f.nts[e.pos[2][2]].vars[e.pos[2][3]]) = e.syms
    [] e.v = "UndefinedNonterminal" ->
         /\ Len(e.pos) = 1 /\ e.name \notin NonterminalNames(f)
         /\ \/ e.pos[1] \in StartSites(f) /\ NameAt(f, e.pos[1]) = e.name
            \/ /\ e.pos[1][1] = "fsym" /\ <<e.pos[1][2], e.pos[1][3], e.pos[1][4]>> \in FieldIdx(f)
               /\ ~Fld(f, <<e.pos[1][2], e.pos[1][3], e.pos[1][4]>>).dollar
               /\ NameAt(f, e.pos[1]) = e.name
    [] e.v = "UndefinedTerminal" ->
         /\ Len(e.pos) = 1 /\ e.name \notin TerminalNames(f)
         /\ e.pos[1][1] = "fsym" /\ <<e.pos[1][2], e.pos[1][3], e.pos[1][4]>> \in FieldIdx(f)
         /\ Fld(f, <<e.pos[1][2], e.pos[1][3], e.pos[1][4]>>).dollar
         /\ NameAt(f, e.pos[1]) = e.name
    [] OTHER -> FALSE

\* some violation is present (so generate must not return Ok nor a table conflict)
HasViolation(f) ==
  \/ Len(f.starts) # 1 \/ Len(f.tenums) # 1
  \/ \E s \in StartSites(f) : NameAt(f, s) \notin NonterminalNames(f)
  \/ \E s \in UpperSites(f) : Lower(NameAt(f, s))
  \/ \E s \in FnameSites(f) : Upper(NameAt(f, s))
  \/ \E s, t \in TopDefSites(f) : s # t /\ NameAt(f, s) = NameAt(f, t)
  \/ \E s, t \in VarSites(f) : s # t /\ s[2] = t[2] /\ NameAt(f, s) = NameAt(f, t)
  \/ \E s, t \in VarSites(f) : s # t /\ s[2] = t[2] /\ SymSeq(f.nts[s[2]].vars[s[3]]) = SymSeq(f.nts[t[2]].vars[t[3]])
  \/ \E t \in FieldIdx(f) : IF Fld(f, t).dollar THEN Fld(f, t).sym \notin TerminalNames(f) ELSE Fld(f, t).sym \notin NonterminalNames(f)

(***************************************************************************)
(* Run(f): validate_ast, check by check, in the implementation's order.    *)
(* Each check returns OkRes or an error; FirstErr picks the first failure. *)
(***************************************************************************)
RECURSIVE FirstErr(_)
FirstErr(checks) == IF checks = <<>> THEN OkRes ELSE IF Head(checks) # OkRes THEN Head(checks) ELSE FirstErr(Tail(checks))

\* first index in 1..n satisfying P, or 0
FirstIdx(n, P(_)) == IF \E i \in 1..n : P(i) THEN CHOOSE i \in 1..n : P(i) /\ \A j \in 1..(i - 1) : ~P(j) ELSE 0

UpperCheck(f, s) == IF Lower(NameAt(f, s)) THEN Err("NotUppercase", "", <<>>, <<s>>) ELSE OkRes

\* get_terminal_enum
CheckTerminalEnum(f) ==
  IF f.tenums = <<>> THEN Err("NoTerminalEnum", "", <<>>, <<>>)
  ELSE IF Len(f.tenums) > 1 THEN Err("MultipleTerminalEnums", "", <<>>, [i \in DOMAIN f.tenums |-> Site("tenum", i, 0, 0)])
  ELSE FirstErr(<<UpperCheck(f, Site("tenum", 1, 0, 0))>> \o [j \in DOMAIN f.tenums[1].vars |-> UpperCheck(f, Site("tvar", 1, j, 0))])

\* get_defined_symbol_positions: nonterminals in order, then the terminal variants
DefSeq(f) == [i \in DOMAIN f.nts |-> Site("nt", i, 0, 0)] \o [j \in DOMAIN f.tenums[1].vars |-> Site("tvar", 1, j, 0)]
ClashIn(f, defs) ==
  LET n == Len(defs)
      k == FirstIdx(n, LAMBDA i : \E j \in 1..(i - 1) : NameAt(f, defs[j]) = NameAt(f, defs[i]))
  IN IF k = 0 THEN OkRes
     ELSE LET j == CHOOSE j2 \in 1..(k - 1) : NameAt(f, defs[j2]) = NameAt(f, defs[k]) /\ \A j3 \in 1..(j2 - 1) : NameAt(f, defs[j3]) # NameAt(f, defs[k])
          IN Err("NameClash", NameAt(f, defs[k]), <<>>, <<defs[j], defs[k]>>)
CheckDefinedSymbols(f) == ClashIn(f, DefSeq(f))

CheckField(f, i, j, k) ==
  LET fld == Fld(f, <<i, j, k>>) v == f.nts[i].vars[j] IN
  FirstErr(<<
    IF v.style = "named" /\ fld.fname # "_" /\ Upper(fld.fname) THEN Err("NotLowercase", "", <<>>, <<Site("fname", i, j, k)>>) ELSE OkRes,
    IF fld.dollar THEN (IF fld.sym \in TerminalNames(f) THEN OkRes ELSE Err("UndefinedTerminal", fld.sym, <<>>, <<Site("fsym", i, j, k)>>))
    ELSE (IF fld.sym \in NonterminalNames(f) THEN OkRes ELSE Err("UndefinedNonterminal", fld.sym, <<>>, <<Site("fsym", i, j, k)>>)) >>)
CheckFieldset(f, i, j) == FirstErr([k \in DOMAIN f.nts[i].vars[j].fields |-> CheckField(f, i, j, k)])

CheckVariantNames(f, i) ==
  LET vs == f.nts[i].vars
      k == FirstIdx(Len(vs), LAMBDA a : \E b \in 1..(a - 1) : vs[b].vname = vs[a].vname)
  IN IF k = 0 THEN OkRes
     ELSE LET b == CHOOSE b2 \in 1..(k - 1) : vs[b2].vname = vs[k].vname IN
          Err("VariantNameClash", vs[k].vname, <<>>, <<Site("var", i, b, 0), Site("var", i, k, 0)>>)
CheckVariantSeqs(f, i) ==
  LET vs == f.nts[i].vars
      k == FirstIdx(Len(vs), LAMBDA a : \E b \in 1..(a - 1) : SymSeq(vs[b]) = SymSeq(vs[a]))
  IN IF k = 0 THEN OkRes
     ELSE LET b == CHOOSE b2 \in 1..(k - 1) : SymSeq(vs[b2]) = SymSeq(vs[k]) IN
          Err("VariantSeqClash", "", SymSeq(vs[k]), <<Site("var", i, b, 0), Site("var", i, k, 0)>>)

CheckNonterminal(f, i) ==
  IF f.nts[i].kind = "struct"
  THEN FirstErr(<<UpperCheck(f, Site("nt", i, 0, 0)), CheckFieldset(f, i, 1)>>)
  ELSE FirstErr(<<UpperCheck(f, Site("nt", i, 0, 0)), CheckVariantNames(f, i), CheckVariantSeqs(f, i)>>
                \o [j \in DOMAIN f.nts[i].vars |-> FirstErr(<<UpperCheck(f, Site("var", i, j, 0)), CheckFieldset(f, i, j)>>)])
CheckNonterminals(f) == FirstErr(<<CheckDefinedSymbols(f)>> \o [i \in DOMAIN f.nts |-> CheckNonterminal(f, i)])

CheckStart(f) ==
  IF f.starts = <<>> THEN Err("NoStartSymbol", "", <<>>, <<>>)
  ELSE IF Len(f.starts) > 1 THEN Err("MultipleStartSymbols", "", <<>>, [i \in DOMAIN f.starts |-> Site("start", i, 0, 0)])
  ELSE IF f.starts[1] \in NonterminalNames(f) THEN OkRes
  ELSE Err("UndefinedNonterminal", f.starts[1], <<>>, <<Site("start", 1, 0, 0)>>)

\* assert_there_are_no_top_level_name_clashes: as CheckDefinedSymbols, then the terminal enum's own name
CheckTopLevel(f) == ClashIn(f, DefSeq(f) \o <<Site("tenum", 1, 0, 0)>>)

Run(f) ==
  LET t == CheckTerminalEnum(f) IN
  IF t # OkRes THEN t      \* the later checks assume exactly one terminal enum
  ELSE FirstErr(<<CheckNonterminals(f), CheckStart(f), CheckTopLevel(f)>>)

\* C10 on the specification itself
RunSound(f) == LET r == Run(f) IN IF r = OkRes THEN ~HasViolation(f) ELSE Truthful(f, r)
=============================================================================
