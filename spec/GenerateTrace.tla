--------------------------- MODULE GenerateTrace ---------------------------
(* Trace validation of whole generate calls (the repository's fixtures, the should_fail files, seeded mutated files):
   each record lists the intermediates the hook's stage-by-stage run produced and the result class of the PUBLIC
   generate; it must be a behaviour of Generate.tla.  TRACE: ND-JSON [ev |-> "run", have: [...], result]. *)
EXTENDS Generate, TLC, Json, IOUtils
Rec == ndJsonDeserialize(IOEnv.TRACE)
VARIABLE l
\* one record = one complete behaviour of Generate: the set of end states reachable from GInit
RECURSIVE Ends(_, _, _)
Ends(a, h, r) ==
  IF r # "running" THEN { [have |-> h, result |-> r] }
  ELSE UNION ({ Ends(a + 1, h \cup {Produces(Stages[a])}, IF a = 6 THEN "ok" ELSE "running") }
              \cup { Ends(7, h, e) : e \in ErrorsOf(Stages[a]) })
AllEnds == Ends(1, {}, "running")
TInit == l = 1 /\ at = 1 /\ have = {} /\ result = "running"
TRun == /\ l <= Len(Rec) /\ Rec[l].ev = "run"
        /\ [have |-> { Rec[l].have[k] : k \in DOMAIN Rec[l].have }, result |-> Rec[l].result] \in AllEnds
        /\ l' = l + 1 /\ UNCHANGED gvars
Accepted == LET d == TLCGet("stats").diameter IN
   IF d - 1 = Len(Rec) THEN PrintT(<<"TRACE-ACCEPTED", Len(Rec)>>)
   ELSE PrintT(<<"TRACE-REJECTED", d, ToJson(Rec[d])>>) /\ FALSE
=============================================================================
