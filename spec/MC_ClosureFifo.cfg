SPECIFICATION FifoSpec
INVARIANT CSound
INVARIANT CLoopInv
INVARIANT CComplete
INVARIANT CWalkIsFirst
INVARIANT CBounded
PROPERTY CMonotone
PROPERTY Terminates
CHECK_DEADLOCK FALSE
