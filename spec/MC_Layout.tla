----------------------------- MODULE MC_Layout -----------------------------
(***************************************************************************)
(* C16 at the lexical level: layout never changes the token sequence.      *)
(* A text is built by alternating TOKENS from a pool (one representative   *)
(* of every token kind and boundary class) and LAYOUT atoms (nothing,      *)
(* space, tab, LF, CR LF, no-break space, ideographic space, a `//`        *)
(* comment ended by LF or CR LF, and - only at the very end - a comment    *)
(* without a final newline).  The empty separator is allowed exactly       *)
(* where NeedsSep says the two tokens would not glue (ident after ident,   *)
(* `:` before `:`/`::`, ...).  The same NeedsSep rule is used by the       *)
(* driver when it re-lays whole files.                                     *)
(* Invariant: the declarative lexical rules (LexRef) read back exactly the *)
(* intended tokens - kinds, texts (byte lengths) and starts equal to the   *)
(* accumulated byte lengths - whatever the layout.  Hence any two          *)
(* admissible layouts of one token sequence give the same tokens with      *)
(* starts shifted by the accumulated separator lengths.                    *)
(***************************************************************************)
EXTENDS LexRef, TLC, IOUtils
T(k, cps) == [k |-> k, cps |-> cps]
AllTokens == { T("StartKw", W_start), T("Ident", <<97>>), T("Ident", <<90, 57>>), T("Underscore", W_us), T("TerminalIdent", <<DOLLAR, 65>>),
            T("Colon", <<COLON>>), T("DoubleColon", <<COLON, COLON>>), T("Comma", <<44>>), T("LParen", <<40>>), T("RCurly", <<125>>),
            T("LAngle", <<60>>), T("OuterAttribute", <<POUND, LBRACK, 97, 93>>) }
CoreTokens == { T("Ident", <<97>>), T("Underscore", W_us), T("TerminalIdent", <<DOLLAR, 65>>), T("Colon", <<COLON>>), T("DoubleColon", <<COLON, COLON>>),
                T("LParen", <<40>>), T("OuterAttribute", <<POUND, LBRACK, 97, 93>>) }
Tokens == IF IOEnv.POOL = "core" THEN CoreTokens ELSE AllTokens
CoreSeps == { <<>>, <<32>>, <<13, NLc>>, <<12288>>, <<SLASH, SLASH, 233, 13, NLc>> }
AllSeps == { <<>>, <<32>>, <<9>>, <<NLc>>, <<13, NLc>>, <<160>>, <<12288>>, <<SLASH, SLASH, 120, NLc>>, <<SLASH, SLASH, 233, 13, NLc>>, <<SLASH, SLASH, 13, 97, NLc>> }
Seps == IF IOEnv.POOL = "core" THEN CoreSeps ELSE AllSeps
FinalSeps == Seps \cup { <<SLASH, SLASH, 120>>, <<SLASH, SLASH>> }
Wordy(c) == IsIdCont(c)
\* would t2 directly after t1 be read as something else?
NeedsSep(t1, t2) ==
  \/ Wordy(t1.cps[Len(t1.cps)]) /\ Wordy(t2.cps[1])
  \/ t1.k = "Colon" /\ t2.k \in {"Colon", "DoubleColon"}
MaxTok == atoi(IOEnv.MAXTOK)

VARIABLES text,     \* code points so far
          toks,     \* intended tokens: sequence of [k, s, l]
          last,     \* the last token appended (or a dummy), and whether a non-empty separator follows it
          sepd, fin
Dummy == T("none", <<32>>)
Init == text = <<>> /\ toks = <<>> /\ last = Dummy /\ sepd = TRUE /\ fin = FALSE
AddSep == /\ ~fin /\ ~sepd /\ Len(toks) < MaxTok + 1
          /\ \E s \in Seps \ {<<>>} : text' = text \o s
          /\ sepd' = TRUE /\ UNCHANGED <<toks, last, fin>>
AddLeading == /\ ~fin /\ toks = <<>> /\ text = <<>> /\ \E s \in Seps \ {<<>>} : text' = s
              /\ UNCHANGED <<toks, last, sepd, fin>>
AddTok == /\ ~fin /\ Len(toks) < MaxTok
          /\ \E t \in Tokens :
                /\ (sepd \/ ~NeedsSep(last, t))
                /\ text' = text \o t.cps
                /\ toks' = Append(toks, Tok(t.k, Bytes(text, 1, Len(text)), Bytes(t.cps, 1, Len(t.cps))))
                /\ last' = t
          /\ sepd' = FALSE /\ UNCHANGED fin
AddFinal == /\ ~fin /\ \E s \in FinalSeps \ {<<>>} : text' = text \o s
            /\ fin' = TRUE /\ UNCHANGED <<toks, last, sepd>>
Next == AddSep \/ AddLeading \/ AddTok \/ AddFinal
LayoutIrrelevant == LET r == RefLex(text) IN r.ok /\ r.out = toks
=============================================================================
