INIT Init
NEXT Next
INVARIANT LayoutIrrelevant
CHECK_DEADLOCK FALSE
