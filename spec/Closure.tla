------------------------------ MODULE Closure ------------------------------
(***************************************************************************)
(* The closure computation the implementation actually performs            *)
(* (ImmutContext::get_closure in validated_ast_to_machine/mod.rs):         *)
(*                                                                         *)
(*   queue := the kernel items (in the order they were collected)          *)
(*   items := {}                                                           *)
(*   while let Some(next) = queue.pop_front():                             *)
(*       if items.contains(next): continue                 -- Skip         *)
(*       queue.extend(implied(next)); items.insert(next)   -- Expand       *)
(*                                                                         *)
(* implied(A -> alpha . B beta, a) = { (B -> . gamma, b) : b in            *)
(* FIRST(beta a) } where FIRST(beta a) is computed by                      *)
(* get_first_of_symbol_sequence + add_lookahead_if_needed: walk beta,      *)
(* collect terminals, stop at the first non-nullable symbol; the item's    *)
(* own lookahead is added iff the walk fell off the end.                   *)
(*                                                                         *)
(* One action per loop iteration, same variables as the Rust function.     *)
(* More liberal than the code where the result must not depend on it: the  *)
(* queue may be served at ANY position (the code is first-in first-out)    *)
(* and the implied items may be appended in any order (the code follows    *)
(* Oset order of lookaheads, then rule order).  TLC shows that the result  *)
(* is LR1!Closure(kernel) - the declarative least fixed point that Builder *)
(* and every judge use - whatever the order, that every item ever put in   *)
(* the queue belongs to that closure, and that the loop terminates.        *)
(***************************************************************************)
EXTENDS LR1

VARIABLES
  cg,       \* grammar
  cctx,     \* Ctx(cg)
  ckernel,  \* the kernel (set of items) whose closure is being computed
  cqueue,   \* VecDeque<StateItem>: sequence of items, duplicates possible as in the code
  citems,   \* Oset<StateItem>
  cpops,    \* number of loop iterations so far
  cdone,
  cwant     \* specification-only constant of a behaviour: LR1!Closure(cctx, ckernel), what the loop should end with
cvars == <<cg, cctx, ckernel, cqueue, citems, cpops, cdone, cwant>>

\* get_first_of_symbol_sequence, as a left-to-right walk that stops at the first non-nullable symbol
RECURSIVE WalkFirst(_, _)
WalkFirst(C, seq) ==
  IF seq = <<>> THEN [ts |-> {}, eps |-> TRUE]
  ELSE LET x == Head(seq) IN
       IF x \in C.G.ts THEN [ts |-> {x}, eps |-> FALSE]
       ELSE IF x \notin C.NL THEN [ts |-> C.F[x], eps |-> FALSE]
       ELSE LET rest == WalkFirst(C, Tail(seq)) IN [ts |-> C.F[x] \cup rest.ts, eps |-> rest.eps]

\* add_lookahead_if_needed
Augmented(C, seq, la) == LET w == WalkFirst(C, seq) IN IF w.eps THEN w.ts \cup {la} ELSE w.ts

\* get_closure_implied_items
Implied(C, it) ==
  IF EndOf(C.G, it) \/ NextSym(C.G, it) \notin C.G.nts THEN {}
  ELSE LET B == NextSym(C.G, it)
           beta == SubSeq(Rhs(C.G, it.r), it.d + 2, Len(Rhs(C.G, it.r)))
       IN { Item(j, 0, b) : j \in RulesOf(C.G, B), b \in Augmented(C, beta, it.la) }

RemoveAtC(s, k) == SubSeq(s, 1, k - 1) \o SubSeq(s, k + 1, Len(s))
RECURSIVE AnySeqOf(_)
\* all orders in which a finite set can be listed
AnySeqOf(S) == IF S = {} THEN {<<>>} ELSE UNION { { <<x>> \o t : t \in AnySeqOf(S \ {x}) } : x \in S }
RECURSIVE OneSeqOf(_)
OneSeqOf(S) == IF S = {} THEN <<>> ELSE LET x == CHOOSE y \in S : TRUE IN <<x>> \o OneSeqOf(S \ {x})
IsListingOf(seq, S) == Len(seq) = Cardinality(S) /\ { seq[k] : k \in DOMAIN seq } = S

\* the kernels the builder closes: the augmented start item, Advance(I, X) of every canonical LR(1) state I, and
\* Advance(I, X) of every merged (LALR) state - the builder's intermediate, partially merged states lie in between
KernelsOf(C, SS) == UNION { { Advance(C, I, X) : X \in SymsRightOfDot(C.G, I) } : I \in SS }
Kernels(C) == { { Item(0, 0, EOFSYM) } } \cup KernelsOf(C, Canon(C)) \cup KernelsOf(C, LALRStates(C))

\* the kernel arrives in any order (the code: Oset order of the source state's items)
CInit(GU) ==
  /\ cg \in GU
  /\ cctx = Ctx(cg)
  /\ ckernel \in Kernels(cctx)
  /\ cqueue \in AnySeqOf(ckernel)
  /\ citems = {} /\ cpops = 0 /\ cdone = FALSE
  /\ cwant = Closure(cctx, ckernel)

\* `if items.contains(&next) { continue; }`
Skip(k) ==
  /\ ~cdone /\ k \in DOMAIN cqueue /\ cqueue[k] \in citems
  /\ cqueue' = RemoveAtC(cqueue, k)
  /\ cpops' = cpops + 1
  /\ UNCHANGED <<cg, cctx, ckernel, citems, cdone, cwant>>

\* enqueue_closure_implied_items; items.insert(next)   (FIFO order of the code: order == the Oset/rule order)
Expand(k, order) ==
  /\ ~cdone /\ k \in DOMAIN cqueue /\ cqueue[k] \notin citems
  /\ cqueue' = RemoveAtC(cqueue, k) \o order
  /\ citems' = citems \cup { cqueue[k] }
  /\ cpops' = cpops + 1
  /\ UNCHANGED <<cg, cctx, ckernel, cdone, cwant>>

CFinish == ~cdone /\ cqueue = <<>> /\ cdone' = TRUE /\ UNCHANGED <<cg, cctx, ckernel, cqueue, citems, cpops, cwant>>

\* any position: the queue is then effectively a bag, so ONE listing of the implied items stands for all of them
CNext == \/ \E k \in DOMAIN cqueue : Skip(k) \/ Expand(k, OneSeqOf(Implied(cctx, cqueue[k])))
         \/ CFinish
\* as the code: the front of the queue, the implied items appended in EVERY possible order (the code's order - Oset
\* order of the lookaheads, then rule order - is one of them; the trace validator checks IsListingOf on what it logged)
CNextFifo == \/ Skip(1) \/ (cqueue # <<>> /\ \E o \in AnySeqOf(Implied(cctx, cqueue[1])) : Expand(1, o))
             \/ CFinish

(* ---- properties ---- *)
Want == cwant
\* nothing outside the declarative closure is ever produced or even queued
CSound == citems \subseteq Want /\ \A k \in DOMAIN cqueue : cqueue[k] \in Want
\* what is not yet in `items` is still reachable from the queue: kernel \subseteq items \cup queue, and every inserted
\* item's implications are in items \cup queue - the loop invariant that gives completeness at the end
CLoopInv == /\ ckernel \subseteq citems \cup { cqueue[k] : k \in DOMAIN cqueue }
            /\ \A it \in citems : Implied(cctx, it) \subseteq citems \cup { cqueue[k] : k \in DOMAIN cqueue }
\* the result
CComplete == cdone => citems = Want
\* the walk with early exit computes FIRST(beta a) of the declarative definition
CWalkIsFirst == \A it \in citems :
   (~EndOf(cg, it) /\ NextSym(cg, it) \in cg.nts) =>
      LET beta == SubSeq(Rhs(cg, it.r), it.d + 2, Len(Rhs(cg, it.r)))
      IN Augmented(cctx, beta, it.la) = FirstSeqT(cg, cctx.F, cctx.NL, beta) \cup (IF SeqNullable(cg, cctx.NL, beta) THEN {it.la} ELSE {})
\* bounded work: every Expand inserts a new item, every item is queued at most once per implicator (+ the kernel)
CBounded == cpops <= Cardinality(Want) * (Cardinality(Want) + 1) + Cardinality(ckernel)
CMonotone == [][citems \subseteq citems']_cvars
\* under any-position service only the BAG of queued items matters
CBag == LET S == { cqueue[k] : k \in DOMAIN cqueue } IN [it \in S |-> Cardinality({ k \in DOMAIN cqueue : cqueue[k] = it })]
CView == <<cg, ckernel, citems, CBag, cdone>>
=============================================================================
