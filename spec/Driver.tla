------------------------------- MODULE Driver -------------------------------
(***************************************************************************)
(* The emitted parser: the shift/reduce loop of the `parse` function that  *)
(* table_to_rust writes, over the LALR(1) tables of the grammar, reading   *)
(* its input through a one-item-lookahead (peekable) view of the caller's  *)
(* iterator.                                                               *)
(*                                                                         *)
(* The caller's iterator is the ENVIRONMENT: whenever the parser peeks and *)
(* nothing is buffered, the environment answers with any terminal or with  *)
(* "end" - that is what "any lazy, side-effecting iterator" means.  The    *)
(* variable `pulled` counts the calls of next() made on the caller's       *)
(* iterator, `taken` is the sequence of tokens it has handed out.          *)
(*                                                                         *)
(* Properties (C01, C02, C03), for grammars whose LALR(1) automaton is     *)
(* conflict-free: acceptance iff `taken` is a sentence (Cfg!IsSentence,    *)
(* no automaton involved); the value returned is a derivation tree whose   *)
(* leaves are the tokens in input order, each exactly once; an error names *)
(* the first token after which no sentence is possible (Cfg!RefOutcome /   *)
(* LR1!CanonStop) and nothing beyond that token was pulled; the state      *)
(* stack and the node stack stay in step, so no pop ever fails (C07).      *)
(***************************************************************************)
EXTENDS LR1

VARIABLES
  dg,      \* grammar
  dctx,    \* Ctx(dg)
  dtab,    \* [n, start, act, go, cf]: tables over a fixed numbering of LALRStates
  stack,   \* sequence of state numbers (`states`)
  nodes,   \* sequence of trees (`nodes`)
  la,      \* the peeked, not yet consumed item: "none" | a terminal | EOFSYM
  taken,   \* tokens the caller's iterator has produced so far
  ended,   \* the caller's iterator has returned None
  pulled,  \* number of next() calls made on the caller's iterator
  res      \* [t |-> "setup" | "run" | "acc" | "err" | "eof" | "skip", at, tree]
dvars == <<dg, dctx, dtab, stack, nodes, la, taken, ended, pulled, res>>

NoTree == Leaf("", 0)
Res(t, at, tree) == [t |-> t, at |-> at, tree |-> tree]

DInit(GU) ==
  /\ dg \in GU
  /\ dctx = [G |-> dg, F |-> <<>>, NL |-> {}] /\ dtab = <<>>
  /\ stack = <<>> /\ nodes = <<>> /\ la = "none" /\ taken = <<>> /\ ended = FALSE /\ pulled = 0
  /\ res = Res("setup", 0, NoTree)

\* generate(): build the tables; only conflict-free grammars get a parser
Setup ==
  /\ res.t = "setup"
  /\ dctx' = Ctx(dg)
  /\ dtab' = DTables(dctx')
  /\ IF dtab'.cf THEN /\ stack' = <<dtab'.start>> /\ res' = Res("run", 0, NoTree)
     ELSE /\ stack' = <<>> /\ res' = Res("skip", 0, NoTree)
  /\ UNCHANGED <<dg, nodes, la, taken, ended, pulled>>

\* quasiterminals.peek() with nothing buffered: one next() on the caller's iterator
PeekToken(x, maxLen) ==
  /\ res.t = "run" /\ la = "none" /\ ~ended /\ Len(taken) < maxLen /\ x \in dg.ts
  /\ la' = x /\ taken' = Append(taken, x) /\ pulled' = pulled + 1
  /\ UNCHANGED <<dg, dctx, dtab, stack, nodes, ended, res>>
PeekEnd ==
  /\ res.t = "run" /\ la = "none" /\ ~ended
  /\ la' = EOFSYM /\ ended' = TRUE /\ pulled' = pulled + 1
  /\ UNCHANGED <<dg, dctx, dtab, stack, nodes, taken, res>>

Top == stack[Len(stack)]
Cell == dtab.act[<<Top, la>>]
\* Err(quasiterminals.next().unwrap().try_into_terminal().ok()): the buffered item, no further pull
Fail == IF la = EOFSYM THEN Res("eof", Len(taken) + 1, NoTree) ELSE Res("err", Len(taken), NoTree)

Shift ==
  /\ res.t = "run" /\ la # "none" /\ Cell[1] = "s"
  /\ stack' = Append(stack, Cell[2])
  /\ nodes' = Append(nodes, Leaf(la, Len(taken)))
  /\ la' = "none"
  /\ UNCHANGED <<dg, dctx, dtab, taken, ended, pulled, res>>

Reduce ==
  /\ res.t = "run" /\ la # "none" /\ Cell[1] = "r"
  /\ LET r == Cell[2]
         k == Len(dg.rules[r].rhs)
         A == dg.rules[r].lhs
     IN /\ Assert(k <= Len(nodes) /\ k < Len(stack), "reduce pops more than the stacks hold")
        /\ LET st2 == SubSeq(stack, 1, Len(stack) - k)
               nd2 == SubSeq(nodes, 1, Len(nodes) - k)
               kids == SubSeq(nodes, Len(nodes) - k + 1, Len(nodes))
               to == dtab.go[<<st2[Len(st2)], A>>]
           IN IF to = -1
              THEN /\ res' = Fail /\ stack' = st2 /\ nodes' = Append(nd2, Node(r, kids))
              ELSE /\ stack' = Append(st2, to) /\ nodes' = Append(nd2, Node(r, kids)) /\ UNCHANGED res
  /\ UNCHANGED <<dg, dctx, dtab, la, taken, ended, pulled>>

Accept ==
  /\ res.t = "run" /\ la # "none" /\ Cell[1] = "a"
  /\ Assert(nodes # <<>>, "accept with an empty node stack")
  /\ res' = Res("acc", 0, nodes[Len(nodes)])
  /\ UNCHANGED <<dg, dctx, dtab, stack, nodes, la, taken, ended, pulled>>

Error ==
  /\ res.t = "run" /\ la # "none" /\ Cell[1] = "e"
  /\ res' = Fail
  /\ UNCHANGED <<dg, dctx, dtab, stack, nodes, la, taken, ended, pulled>>

DNext(maxLen) == Setup \/ (\E x \in dg.ts : PeekToken(x, maxLen)) \/ PeekEnd \/ Shift \/ Reduce \/ Accept \/ Error

(***************************************************************************)
(* Properties                                                              *)
(***************************************************************************)
Finished == res.t \in {"acc", "err", "eof"}

\* the two stacks stay in step: the reason none of the emitted unwrap()s can fail
StackDiscipline == res.t = "run" => Len(stack) = Len(nodes) + 1

\* C01 + C03 against the parser-free oracle (only meaningful when every nonterminal is productive)
OutcomeRight ==
  (Finished /\ AllProductive(dg)) =>
     LET ref == RefOutcome(dg, taken) IN ref.t = res.t /\ ref.at = res.at
\* C01 for every grammar: acceptance iff sentence
AcceptIffSentence == Finished => ((res.t = "acc") = IsSentence(dg, taken))
\* C03 for every grammar: stops exactly where the canonical LR(1) parser stops
StopsLikeCanonical ==
  Finished => LET c == CanonStop(dctx, taken) IN c.t = res.t /\ c.at = res.at
\* C02: the value is the derivation tree of the input, tokens in order, each once
TreeRight ==
  res.t = "acc" => /\ IsTree(dg, res.tree)
                   /\ Yield(res.tree) = taken
                   /\ PositionsInOrder(res.tree)
\* C03: never pulls beyond the reported token; end of input is asked for exactly once
Consumption ==
  /\ res.t = "acc" => ended /\ pulled = Len(taken) + 1
  /\ res.t = "eof" => ended /\ pulled = Len(taken) + 1
  /\ res.t = "err" => ~ended /\ pulled = Len(taken) /\ res.at = Len(taken)
  /\ pulled = Len(taken) + (IF ended THEN 1 ELSE 0)
=============================================================================
