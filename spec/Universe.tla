----------------------------- MODULE Universe -----------------------------
(***************************************************************************)
(* Bounded universes of grammars for exhaustive checking.                  *)
(*                                                                         *)
(* U(ntseq, ts, maxRules, maxRhs): every grammar over the nonterminals     *)
(* ntseq (a sequence; the first is the start symbol) and terminals ts      *)
(* that has between 1 and maxRules rules in total, each right-hand side    *)
(* of length <= maxRhs.  A nonterminal may have no rule at all (an enum    *)
(* without variants); nonterminals may be unreachable or unproductive;     *)
(* the language may be empty.  Rules are grouped by left-hand side in the  *)
(* order of ntseq because that is how a Kiki file presents them (one       *)
(* struct, or one enum holding all the variants).                          *)
(***************************************************************************)
EXTENDS Naturals, Sequences, FiniteSets, FiniteSetsExt

RECURSIVE SetAsSeq(_)
SetAsSeq(S) == IF S = {} THEN <<>> ELSE LET x == CHOOSE y \in S : TRUE IN <<x>> \o SetAsSeq(S \ {x})

\* k-element subsets for k <= 3 (FiniteSetsExt!kSubset's Java override rejects base sets with more than 62 elements)
KSub(k, S) == CASE k = 0 -> {{}}
                [] k = 1 -> { {x} : x \in S }
                [] k = 2 -> { {x, y} : x \in S, y \in S } \ { {x} : x \in S }
                [] k = 3 -> { T \in { {x, y, z} : x \in S, y \in S, z \in S } : Cardinality(T) = 3 }

SeqsUpTo(S, k) == UNION { [1..n -> S] : n \in 0..k }

\* all ways to split a total of at most m (and at least 1) rules over Len(ntseq) nonterminals
RECURSIVE Splits(_, _)
Splits(n, m) == IF n = 0 THEN {<<>>}
                ELSE UNION { { <<k>> \o s : s \in Splits(n - 1, m - k) } : k \in 0..m }

RECURSIVE RuleSeqs(_, _, _, _)
\* the set of rule sequences in which nonterminal ntseq[i] has exactly split[i] rules, for i >= from
RuleSeqs(ntseq, rhsU, split, from) ==
  IF from > Len(ntseq) THEN {<<>>}
  ELSE LET mine == { [k \in 1..split[from] |-> [lhs |-> ntseq[from], rhs |-> SetAsSeq(R)[k]]] : R \in KSub(split[from], rhsU) }
           rest == RuleSeqs(ntseq, rhsU, split, from + 1)
       IN { a \o b : a \in mine, b \in rest }

\* union of a sequence of sets as a fold of binary unions: TLC's UNION tests every element against an unsorted vector
\* (quadratic - 12 383 grammars took 14 s PER WORKER at start-up), a binary union is sorted once
RECURSIVE CupAll(_)
CupAll(sets) == IF sets = <<>> THEN {}
                ELSE LET h == Head(sets) IN IF Cardinality(h) >= 0 THEN h \cup CupAll(Tail(sets)) ELSE {}   \* Cardinality sorts h, so membership in it is a binary search

U(ntseq, ts, maxRules, maxRhs) ==
  LET nts == { ntseq[i] : i \in DOMAIN ntseq }
      rhsU == SeqsUpTo(nts \cup ts, maxRhs)
      splits == { s \in Splits(Len(ntseq), maxRules) : \E i \in DOMAIN s : s[i] > 0 }
      splitSeq == SetAsSeq(splits)
  IN CupAll([k \in DOMAIN splitSeq |-> { [nts |-> nts, ts |-> ts, start |-> ntseq[1], rules |-> rs] : rs \in RuleSeqs(ntseq, rhsU, splitSeq[k], 1) }])

\* the quick universe: 2 nonterminals, 2 terminals, <= 3 rules, |rhs| <= 2  (12 383 grammars)
U2 == U(<<"S", "A">>, {"$X", "$Y"}, 3, 2)
\* a smaller one for the heaviest all-schedules / all-orders models (|rhs| <= 2, <= 2 rules: 903 grammars)
U1 == U(<<"S", "A">>, {"$X", "$Y"}, 2, 2)
\* thorough: 3-symbol right-hand sides with two nonterminals (and <= 2 rules) and a third nonterminal (|rhs| <= 2, <= 2 rules)
U3a == U(<<"S", "A">>, {"$X", "$Y"}, 2, 3)
U3b == U(<<"S", "A", "B">>, {"$X", "$Y"}, 2, 2)
=============================================================================
