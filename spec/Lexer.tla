------------------------------- MODULE Lexer -------------------------------
(***************************************************************************)
(* The tokenizer state machine over variables: one step per consumed char  *)
(* (LStep) and the final flush (LFinish), built from the per-character     *)
(* transition function of LexCore.tla, which mirrors tokenize.rs handler   *)
(* by handler.                                                             *)
(***************************************************************************)
EXTENDS LexCore

(***************************************************************************)
(* The state machine over variables (used for trace validation and for the *)
(* incremental exploration of MC_Lexer).                                   *)
(***************************************************************************)
VARIABLES
  lsrc,   \* the source consumed so far (sequence of code points)
  lpos,   \* byte length of lsrc = byte offset of the next char
  lst,    \* tokenizer state
  lout,   \* tokens emitted so far
  lres    \* RUN | OK | ERR(i, c)
lvars == <<lsrc, lpos, lst, lout, lres>>

LInit == lsrc = <<>> /\ lpos = 0 /\ lst = Main /\ lout = <<>> /\ lres = RUN

\* `for (c_index, c) in src.char_indices() { self.handle_char(c, c_index)?; }` - one iteration
LStep(c) ==
  /\ lres = RUN
  /\ lsrc' = Append(lsrc, c)
  /\ LET r == StepC(lsrc', lst, lout, c, lpos, Len(lsrc')) IN
       /\ lst' = r.st /\ lout' = r.out /\ lres' = r.res
  /\ lpos' = lpos + Utf8Len(c)

\* the value tokenize() returns if the input ends here
AtEnd(src, pos, st, out) ==
  LET f == Flush(src, st, out, NONE, pos, Len(src)) IN
  IF f.res = RUN THEN [res |-> OK, out |-> f.out] ELSE [res |-> f.res, out |-> f.out]
\* push_pending_token_and_reset_state(None, src.len())
LFinish ==
  /\ lres = RUN
  /\ LET e == AtEnd(lsrc, lpos, lst, lout) IN lres' = e.res /\ lout' = e.out
  /\ UNCHANGED <<lsrc, lpos, lst>>

(***************************************************************************)
(* Why slicing the source never panics (C07): the byte offsets in the      *)
(* state are exactly the offsets of the char indices the spec tracks.      *)
(***************************************************************************)
ByteAccounting ==
  lres = RUN =>
    /\ lpos = Off(lsrc, Len(lsrc) + 1)
    /\ lst.kind \in {"Ident", "TIdent", "Attr"} => (lst.b = lpos /\ lst.a = Off(lsrc, lst.ca))
    /\ lst.kind \in {"Slash", "Dollar", "Colon", "Pound"} => lst.a = Off(lsrc, lst.ca)
    /\ lst.kind = "Attr" => lst.d >= 1
    /\ \A k \in DOMAIN lout : lout[k].s + lout[k].l <= lpos
=============================================================================
