SPECIFICATION Spec
INVARIANT CSound
INVARIANT CLoopInv
INVARIANT CComplete
INVARIANT CWalkIsFirst
INVARIANT CBounded
PROPERTY CMonotone
VIEW CView
CHECK_DEADLOCK FALSE
