SPECIFICATION FifoSpec
INVARIANT NoDupCores
INVARIANT DoneIsLALR
INVARIANT NormalizeIsIsomorphism
PROPERTY Monotone
PROPERTY Terminates
CHECK_DEADLOCK FALSE
