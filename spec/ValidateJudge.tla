--------------------------- MODULE ValidateJudge ---------------------------
(* End-state conformance for validation: each record holds an abstract file and what the REAL generate returned for
   its rendering (positions mapped back to sites by the driver).  Judged with Validate!Truthful / HasViolation:
   Ok or a table conflict requires that no violation is present; a validation error must be truthful - any one of the
   violations present, so the order of the checks is free.  OBS: ND-JSON [id, f, res: [v, name, syms, pos]].
   Names are drawn from the pools below (which fix their capitalisation class). *)
EXTENDS Validate, TLC, Json, IOUtils
UpperNames == {"A", "B", "C", "D", "T", "V", "W", "_A", "Foo", "X9", "__Z", "S", "Node", "_1B"}
LowerNames == {"a", "b", "_a", "foo", "x9", "__z", "e", "_1b"}
NoLetterNames == {"_1", "__", "_", "_42", "___"}
UpperImpl(n) == n \in UpperNames
LowerImpl(n) == n \in LowerNames
Obs == ndJsonDeserialize(IOEnv.OBS)
Judge(r) ==
  LET f == r.f e == r.res
      why == IF e.v \in {"ok", "TableConflict"}
             THEN (IF HasViolation(f) THEN "a file with a well-formedness violation passed validation" ELSE "")
             ELSE (IF Truthful(f, e) THEN "" ELSE "the reported error does not describe a violation present at the reported positions")
  IN [id |-> r.id, ok |-> (why = ""), why |-> why, bad |-> HasViolation(f)]
VARIABLE l
Init == l = 1
Next == l <= Len(Obs) /\ PrintT(<<"VJUDGE", ToJson(Judge(Obs[l]))>>) /\ l' = l + 1
Done == TLCGet("stats").diameter - 1 = Len(Obs)
ASSUME PrintT(<<"NAMEPOOLS", ToJson([upper |-> UpperNames, lower |-> LowerNames, none |-> NoLetterNames])>>)
=============================================================================
