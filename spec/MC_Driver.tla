----------------------------- MODULE MC_Driver -----------------------------
(* Exhaustive exploration of Driver.tla: for every grammar in the file GRAMMARS (ND-JSON: id, nts, ts, start,
   rules - a seeded selection from the universes of Universe.tla and Classics.tla made by the driver, or a whole
   universe), every input the environment can produce up to MAXLEN tokens.  When PRINT = "1", each finished run is
   printed as a RUN line: the prediction that is then replayed on the real emitted parser. *)
EXTENDS Driver, Json, IOUtils
GSeq == ndJsonDeserialize(IOEnv.GRAMMARS)
GU == { [nts |-> SeqRange(r.nts), ts |-> SeqRange(r.ts), start |-> r.start, rules |-> r.rules, id |-> r.id] :
          r \in SeqRange(GSeq) }
MaxLen == atoi(IOEnv.MAXLEN)
Init == DInit(GU)
Next == DNext(MaxLen)
Spec == Init /\ [][Next]_dvars
LiveSpec == Spec /\ WF_dvars(Setup \/ PeekEnd \/ Shift \/ Reduce \/ Accept \/ Error)
\* the parse loop terminates (no reduce cycles) once the input has ended
Terminates == <>(res.t \in {"acc", "err", "eof", "skip"})
PrintRuns ==
  (Finished /\ IOEnv.PRINT = "1") =>
     PrintT(<<"RUN", ToJson([id |-> dg.id, w |-> taken, t |-> res.t, at |-> res.at, pulled |-> pulled,
                             ended |-> ended, tree |-> res.tree])>>)
\* a grammar the specification says is NOT LALR(1): no tables, but its bounded language still decides C01
PrintSkips == (res.t = "skip" /\ IOEnv.PRINT = "1") =>
     PrintT(<<"SKIP", ToJson([id |-> dg.id, lang |-> Lang(dg, MaxLen)])>>)
=============================================================================
