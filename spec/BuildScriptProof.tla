------------------------- MODULE BuildScriptProof -------------------------
(* TLAPS proof that NeverStale and FailureIsHonest are invariants of BuildScript for ANY set of versions (positive
   naturals) and any subset of rejected ones - the unbounded counterpart of MC_BuildScript's 4-version exploration. *)
EXTENDS BuildScript, TLAPS
ASSUME VersionsPositive == Versions \subseteq Nat \ {0}

Kinds == {"absent", "none", "gen", "late"}
FileType == [kind : Kinds, from : Nat]
PT == gram \in Versions /\ parser \in FileType /\ last \in {"none", "fresh", "regenerated", "failed"}
IndInv == PT /\ NeverStale /\ FailureIsHonest

LEMMA FilesType == Files \subseteq FileType
<1>1. NoFile \in FileType BY DEF NoFile, FileType, Kinds
<1>2. [kind |-> "none", from |-> 0] \in FileType BY DEF FileType, Kinds
<1>3. ASSUME NEW k \in {"gen", "late"}, NEW v \in Versions PROVE [kind |-> k, from |-> v] \in FileType
  BY VersionsPositive DEF FileType, Kinds
<1> SUFFICES ASSUME NEW f \in Files PROVE f \in FileType OBVIOUS
<1>4. CASE f \in {NoFile, [kind |-> "none", from |-> 0]} BY <1>4, <1>1, <1>2
<1>5. CASE f \in { [kind |-> "gen", from |-> v] : v \in Versions \ Invalid }
  <2>1. PICK v \in Versions \ Invalid : f = [kind |-> "gen", from |-> v] BY <1>5
  <2> QED BY <2>1, <1>3
<1>6. CASE f \in { [kind |-> "late", from |-> v] : v \in Versions }
  <2>1. PICK v \in Versions : f = [kind |-> "late", from |-> v] BY <1>6
  <2> QED BY <2>1, <1>3
<1> QED BY <1>4, <1>5, <1>6 DEF Files

LEMMA InitOK == BSInit => IndInv
<1> SUFFICES ASSUME BSInit PROVE IndInv OBVIOUS
<1>1. parser \in FileType BY DEF BSInit, NoFile, FileType, Kinds
<1>2. last = "none" BY DEF BSInit
<1> QED BY <1>1, <1>2 DEF BSInit, IndInv, PT, NeverStale, FailureIsHonest

LEMMA StepOK == IndInv /\ [BSNext]_bsvars => IndInv'
<1> SUFFICES ASSUME IndInv, [BSNext]_bsvars PROVE IndInv'
  OBVIOUS
<1> USE DEF IndInv, PT
<1>1. CASE \E v \in Versions : Edit(v)
  BY <1>1 DEF Edit, NeverStale, FailureIsHonest
<1>2. CASE \E p \in Files : Replace(p)
  BY <1>2, FilesType DEF Replace, NeverStale, FailureIsHonest
<1>3. CASE Build
  <2>0. gram \in Nat /\ gram # 0 BY VersionsPositive
  <2>g. Gen(gram) \in FileType BY <2>0 DEF Gen, FileType, Kinds
  <2>1. CASE parser # NoFile /\ StoredHash(parser) = Digest(gram)
    <3>1. parser.kind = "gen" /\ parser.from = gram
      BY <2>1, <2>0 DEF StoredHash, Digest, None
    <3>2. parser = [kind |-> parser.kind, from |-> parser.from]
      BY DEF FileType
    <3>3. parser = Gen(gram)
      BY <3>1, <3>2 DEF Gen
    <3>4. last' = "fresh" /\ parser' = parser /\ gram' = gram
      BY <1>3, <2>1 DEF Build
    <3> QED BY <3>3, <3>4 DEF NeverStale, FailureIsHonest
  <2>2. CASE ~(parser # NoFile /\ StoredHash(parser) = Digest(gram)) /\ gram \in Invalid
    <3>1. last' = "failed" /\ parser' = parser /\ gram' = gram
      BY <1>3, <2>2 DEF Build
    <3>2. parser # Gen(gram)
      <4>1. ASSUME parser = Gen(gram) PROVE FALSE
        <5>1. parser # NoFile BY <4>1 DEF Gen, NoFile
        <5>2. StoredHash(parser) = Digest(gram) BY <4>1 DEF Gen, StoredHash, Digest
        <5> QED BY <5>1, <5>2, <2>2
      <4> QED BY <4>1
    <3> QED BY <3>1, <3>2, <2>2 DEF NeverStale, FailureIsHonest
  <2>3. CASE ~(parser # NoFile /\ StoredHash(parser) = Digest(gram)) /\ gram \notin Invalid
    <3>1. last' = "regenerated" /\ parser' = Gen(gram) /\ gram' = gram
      BY <1>3, <2>3 DEF Build
    <3> QED BY <3>1, <2>g DEF NeverStale, FailureIsHonest
  <2> QED BY <2>1, <2>2, <2>3
<1>4. CASE UNCHANGED bsvars
  BY <1>4 DEF bsvars, NeverStale, FailureIsHonest
<1> QED BY <1>1, <1>2, <1>3, <1>4 DEF BSNext

THEOREM Safety == BSSpec => [](NeverStale /\ FailureIsHonest)
<1>1. IndInv => NeverStale /\ FailureIsHonest
  BY DEF IndInv
<1> QED BY InitOK, StepOK, <1>1, PTL DEF BSSpec
=============================================================================
