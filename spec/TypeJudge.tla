----------------------------- MODULE TypeJudge -----------------------------
(* End-state conformance for payload types beyond the enumerated universe: each record holds a type AST (as declared in
   the grammar, with seeded random layout) and the token sequence found at every use site of the real emitted module;
   each must equal Emit!TypeTokens(t).  OBS: ND-JSON [id, t, sites: [[site, tokens]]]. *)
EXTENDS Emit, TLC, Json, IOUtils
Obs == ndJsonDeserialize(IOEnv.OBS)
Judge(r) ==
  LET exp == TypeTokens(r.t)
      bad == { k \in DOMAIN r.sites : r.sites[k].tokens # exp }
  IN [id |-> r.id, ok |-> (bad = {}), why |-> IF bad = {} THEN "" ELSE "payload type not reproduced token-for-token at site " \o r.sites[CHOOSE k \in bad : TRUE].site,
      ntokens |-> Len(exp)]
VARIABLE l
Init == l = 1
Next == l <= Len(Obs) /\ PrintT(<<"TJUDGE", ToJson(Judge(Obs[l]))>>) /\ l' = l + 1
Done == TLCGet("stats").diameter - 1 = Len(Obs)
=============================================================================
