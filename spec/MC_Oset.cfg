CONSTANTS
  N <- MCN
  Order <- MCOrder
SPECIFICATION Spec
INVARIANT Sorted
INVARIANT DenotesSet
INVARIANT Membership
INVARIANT EqualityBySet
INVARIANT OrderingBySet
CHECK_DEADLOCK FALSE
