---------------------------- MODULE BuildScript ----------------------------
(***************************************************************************)
(* The build-script protocol of kiki/build.rs, closer to the code than     *)
(* Freshness.tla (no failing builds, no damaged files there): a grammar    *)
(* file, the checked-in parser file next to it, and the script that runs   *)
(* on every build:                                                         *)
(*                                                                         *)
(*   file_hash := sha256(grammar text)                                     *)
(*   if the parser file exists and get_grammar_hash(it) = Some(file_hash)  *)
(*        -> leave it alone ("The .kiki file has not changed.")            *)
(*   else -> generate(grammar text); on Err the build PANICS and the       *)
(*           parser file stays as it was; on Ok the file is overwritten    *)
(*                                                                         *)
(* Contents are abstract: a grammar file holds one of the Versions (some   *)
(* of them Invalid: generate rejects them); the parser file is absent, or  *)
(*   [kind |-> "gen",  from |-> v]  output of generate for version v       *)
(*   [kind |-> "late", from |-> v]  text whose `// @sha256 digest(v)` line *)
(*                                  is NOT in the leading // block         *)
(*   [kind |-> "none", from |-> 0]  text without any hash line             *)
(* ("late"/"none" arise when somebody edits or replaces the checked-in     *)
(* file).  C15 supplies the two facts the protocol rests on:               *)
(*   get_grammar_hash(generate(t)) = Some(sha256(t))   (StoredHash "gen")  *)
(*   get_grammar_hash reads only the leading block     (StoredHash else)   *)
(* and SHA-256 is taken to be injective on the versions.                   *)
(***************************************************************************)
EXTENDS Naturals
CONSTANTS Versions, Invalid
ASSUME InvalidSub == Invalid \subseteq Versions
VARIABLES gram,      \* version currently in the grammar file
          parser,    \* parser file (see above) or NoFile
          last       \* outcome of the last step: "none" | "fresh" | "regenerated" | "failed"
bsvars == <<gram, parser, last>>
NoFile == [kind |-> "absent", from |-> 0]
Gen(v) == [kind |-> "gen", from |-> v]
Files == {NoFile, [kind |-> "none", from |-> 0]} \cup { [kind |-> "gen", from |-> v] : v \in Versions \ Invalid }
          \cup { [kind |-> "late", from |-> v] : v \in Versions }

Digest(v) == v                                      \* injective
None == 0                                           \* Versions are positive
StoredHash(p) == IF p.kind = "gen" THEN Digest(p.from) ELSE None     \* what get_grammar_hash returns

BSInit == gram \in Versions /\ parser = NoFile /\ last = "none"
\* environment: the grammar is edited; the parser file is replaced, edited or deleted
Edit(v) == v \in Versions /\ v # gram /\ gram' = v /\ last' = "none" /\ UNCHANGED parser
Replace(p) == p \in Files /\ p # parser /\ parser' = p /\ last' = "none" /\ UNCHANGED gram
\* the script
Build ==
  /\ UNCHANGED gram
  /\ IF parser # NoFile /\ StoredHash(parser) = Digest(gram)
     THEN last' = "fresh" /\ UNCHANGED parser
     ELSE IF gram \in Invalid
          THEN last' = "failed" /\ UNCHANGED parser
          ELSE last' = "regenerated" /\ parser' = Gen(gram)
BSNext == (\E v \in Versions : Edit(v)) \/ (\E p \in Files : Replace(p)) \/ Build
BSSpec == BSInit /\ [][BSNext]_bsvars

TypeOK == gram \in Versions /\ parser \in Files /\ last \in {"none", "fresh", "regenerated", "failed"}
\* after a build that did not fail, the parser file is the output for exactly the current grammar text
NeverStale == last \in {"fresh", "regenerated"} => parser = Gen(gram)
\* a failed build never leaves output of the rejected grammar behind, and says so only for rejected grammars
FailureIsHonest == last = "failed" => gram \in Invalid /\ parser # Gen(gram)
\* building twice in a row does nothing the second time
Idempotent == [][(last \in {"fresh", "regenerated"} /\ Build) => (parser' = parser /\ last' = "fresh")]_bsvars
=============================================================================
