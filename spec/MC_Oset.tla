------------------------------ MODULE MC_Oset ------------------------------
(* Exhaustive exploration of Oset.tla: Elem = 0..N-1 under the order given in the file ORDERFILE (so the same model is
   checked for several element orders), every argument sequence of length <= L (duplicates and any order allowed).
   Each transition is printed as an EDGE line with the predicted successor state and observations; the driver replays
   every edge on two real kiki::Oset values through the public API. *)
EXTENDS Oset, TLC, Json, IOUtils
Cfg == ndJsonDeserialize(IOEnv.ORDERFILE)[1]
MCN == Cfg.n
MCOrder == Cfg.order
L == Cfg.maxlen
Args == UNION { [1..k -> 0..(MCN - 1)] : k \in 0..L }
Obs == [a |-> a', b |-> b', ca |-> [x \in 0..(MCN - 1) |-> Contains(a', x)], cb |-> [x \in 0..(MCN - 1) |-> Contains(b', x)],
        eq |-> EqRaw(a', b'), cmp |-> CmpRaw(a', b')]
Edge(op, w, args) == PrintT(<<"EDGE", ToJson([fa |-> a, fb |-> b, op |-> op, w |-> w, args |-> args, to |-> Obs])>>)
Next == \E w \in {"a", "b"} :
          \/ \E x \in 0..(MCN - 1) : Insert(w, x) /\ Edge("insert", w, <<x>>)
          \/ \E s \in Args : FromIter(w, s) /\ Edge("from_iter", w, s)
          \/ \E s \in Args : Extend(w, s) /\ Edge("extend", w, s)
Spec == OInit /\ [][Next]_ovars
=============================================================================
