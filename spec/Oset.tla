-------------------------------- MODULE Oset --------------------------------
(***************************************************************************)
(* kiki::Oset<T>, the public ordered set: a vector kept strictly           *)
(* ascending.  Two sets `a` and `b` (so that equality and ordering between *)
(* sets can be observed), each a sequence `raw`, with ghost variables      *)
(* ma, mb: the mathematical sets they are supposed to denote.              *)
(*                                                                         *)
(* The operations are specified the way the code performs them:            *)
(*   insert    binary search for the position; no-op if present            *)
(*   from_iter collect, sort, dedup                                        *)
(*   extend    append, sort, dedup                                         *)
(*   contains  BINARY SEARCH on the sequence - so it is only right if the  *)
(*             sequence really is sorted                                   *)
(*   ==, cmp   those of the underlying vectors (derive): element-wise,     *)
(*             lexicographic                                               *)
(* The element type is any strict total order: Elem = 0..N-1 ordered by    *)
(* the rank function given as the constant sequence Order (Order[k] is the *)
(* k-th smallest element).                                                 *)
(***************************************************************************)
EXTENDS Naturals, Sequences, FiniteSets, Integers

CONSTANTS N,       \* elements are 0..N-1
          Order    \* sequence: the elements in ascending order of the element type's Ord
Elem == 0..(N - 1)
RankOf(x) == CHOOSE k \in DOMAIN Order : Order[k] = x
Lt(x, y) == RankOf(x) < RankOf(y)

VARIABLES a, b, ma, mb
ovars == <<a, b, ma, mb>>

Rng(s) == { s[i] : i \in DOMAIN s }
StrictlyAscending(s) == \A i \in 1..(Len(s) - 1) : Lt(s[i], s[i + 1])
\* the ascending sequence of a set
RECURSIVE SortedSeq(_)
SortedSeq(S) == IF S = {} THEN <<>>
                ELSE LET x == CHOOSE y \in S : \A z \in S : z = y \/ Lt(y, z) IN <<x>> \o SortedSeq(S \ {x})

\* Vec::binary_search on a sequence assumed sorted: <<found, position>> (position = insertion point when not found)
RECURSIVE BinSearch(_, _, _, _)
BinSearch(s, x, lo, hi) ==     \* search in s[lo..hi-1], 1-based, hi exclusive
  IF lo >= hi THEN <<FALSE, lo>>
  ELSE LET mid == (lo + hi) \div 2 IN
       IF s[mid] = x THEN <<TRUE, mid>>
       ELSE IF Lt(s[mid], x) THEN BinSearch(s, x, mid + 1, hi)
       ELSE BinSearch(s, x, lo, mid)
Search(s, x) == BinSearch(s, x, 1, Len(s) + 1)

InsertInto(s, x) == LET r == Search(s, x) IN
   IF r[1] THEN s ELSE SubSeq(s, 1, r[2] - 1) \o <<x>> \o SubSeq(s, r[2], Len(s))
\* sort + dedup of an arbitrary sequence
Normalise(s) == SortedSeq(Rng(s))

Contains(s, x) == Search(s, x)[1]
EqRaw(s, t) == s = t
\* Vec's lexicographic Ord: -1, 0, 1
RECURSIVE CmpRaw(_, _)
CmpRaw(s, t) == IF s = <<>> /\ t = <<>> THEN 0
                ELSE IF s = <<>> THEN -1
                ELSE IF t = <<>> THEN 1
                ELSE IF Head(s) = Head(t) THEN CmpRaw(Tail(s), Tail(t))
                ELSE IF Lt(Head(s), Head(t)) THEN -1 ELSE 1

OInit == a = <<>> /\ b = <<>> /\ ma = {} /\ mb = {}

Insert(w, x) ==
  IF w = "a" THEN /\ a' = InsertInto(a, x) /\ ma' = ma \cup {x} /\ UNCHANGED <<b, mb>>
  ELSE /\ b' = InsertInto(b, x) /\ mb' = mb \cup {x} /\ UNCHANGED <<a, ma>>
FromIter(w, s) ==
  IF w = "a" THEN /\ a' = Normalise(s) /\ ma' = Rng(s) /\ UNCHANGED <<b, mb>>
  ELSE /\ b' = Normalise(s) /\ mb' = Rng(s) /\ UNCHANGED <<a, ma>>
Extend(w, s) ==
  IF w = "a" THEN /\ a' = Normalise(a \o s) /\ ma' = ma \cup Rng(s) /\ UNCHANGED <<b, mb>>
  ELSE /\ b' = Normalise(b \o s) /\ mb' = mb \cup Rng(s) /\ UNCHANGED <<a, ma>>

(***************************************************************************)
(* Properties (C18)                                                        *)
(***************************************************************************)
\* how two SETS compare, defined on the sets alone: look at the least element in which they differ
SetCmp(S, T) ==
  LET D == (S \ T) \cup (T \ S) IN
  IF D = {} THEN 0
  ELSE LET x == CHOOSE y \in D : \A z \in D : z = y \/ Lt(y, z) IN
       IF x \in S THEN (IF \E y \in T : Lt(x, y) THEN -1 ELSE 1)
       ELSE (IF \E y \in S : Lt(x, y) THEN 1 ELSE -1)

Sorted == StrictlyAscending(a) /\ StrictlyAscending(b)                  \* each element once, increasing
DenotesSet == Rng(a) = ma /\ Rng(b) = mb                                 \* exactly the elements it was given
Membership == \A x \in Elem : (Contains(a, x) <=> x \in ma) /\ (Contains(b, x) <=> x \in mb)
EqualityBySet == EqRaw(a, b) <=> (ma = mb)
OrderingBySet == CmpRaw(a, b) = SetCmp(ma, mb)
=============================================================================
