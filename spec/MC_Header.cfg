INIT Init
NEXT Next
INVARIANT ScanRight
INVARIANT PrintCases
CHECK_DEADLOCK FALSE
