----------------------------- MODULE Classics -----------------------------
(***************************************************************************)
(* Hand-written grammars that sit on the boundaries the properties name:   *)
(* LALR(1)-but-not-SLR(1), LR(1)-but-not-LALR(1), ambiguous, accept/reduce,*)
(* epsilon rules in every position, left/right/hidden recursion,           *)
(* unreachable and unproductive nonterminals, empty languages, no          *)
(* terminals, enums without variants, and two realistic grammars (JSON and *)
(* balanced parentheses).  Each is [name, g, lalr] where lalr is what the  *)
(* literature says about it (checked against LR1!ConflictFree by           *)
(* MC_Classics, so a wrong transcription cannot go unnoticed).             *)
(***************************************************************************)
EXTENDS Naturals, Sequences, FiniteSets

R(l, r) == [lhs |-> l, rhs |-> r]
Mk(ntseq, ts, rules) == [nts |-> { ntseq[i] : i \in DOMAIN ntseq }, ts |-> ts, start |-> ntseq[1], rules |-> rules]
C(name, lalr, g) == [name |-> name, lalr |-> lalr, g |-> g]

Classics == {
  C("lalr_not_slr", TRUE, Mk(<<"S","L","Rv">>, {"$Eq","$Star","$Id"},
     << R("S", <<"L","$Eq","Rv">>), R("S", <<"Rv">>), R("L", <<"$Star","Rv">>), R("L", <<"$Id">>), R("Rv", <<"L">>) >>)),
  C("lr1_not_lalr", FALSE, Mk(<<"S","A","B">>, {"$Ta","$Tb","$Tc","$Td","$Te"},
     << R("S", <<"$Ta","A","$Td">>), R("S", <<"$Tb","B","$Td">>), R("S", <<"$Ta","B","$Te">>), R("S", <<"$Tb","A","$Te">>),
        R("A", <<"$Tc">>), R("B", <<"$Tc">>) >>)),
  C("lalr_eps_lookahead", TRUE, Mk(<<"S","A","B">>, {"$Ta","$Tb"},
     << R("S", <<"$Ta","A","$Ta">>), R("S", <<"$Tb","A","$Tb">>), R("S", <<"$Ta","B","$Tb">>), R("S", <<"$Tb","B","$Ta">>),
        R("A", <<>>), R("B", <<>>) >>)),
  C("ambiguous_expr", FALSE, Mk(<<"E">>, {"$Plus","$Id"},
     << R("E", <<"E","$Plus","E">>), R("E", <<"$Id">>) >>)),
  C("dangling_else", FALSE, Mk(<<"S">>, {"$If","$Else","$Other"},
     << R("S", <<"$If","S">>), R("S", <<"$If","S","$Else","S">>), R("S", <<"$Other">>) >>)),
  C("accept_reduce", FALSE, Mk(<<"S">>, {"$Ta"},
     << R("S", <<"S">>), R("S", <<"$Ta">>) >>)),
  C("unit_cycle_only", FALSE, Mk(<<"S">>, {"$Ta"},
     << R("S", <<"S">>) >>)),
  C("eps_in_middle", TRUE, Mk(<<"S","B">>, {"$Ta","$Tb","$Tc"},
     << R("S", <<"$Ta","B","$Tc">>), R("B", <<>>), R("B", <<"$Tb">>) >>)),
  C("nullable_start_right_rec", TRUE, Mk(<<"S">>, {"$Ta"},
     << R("S", <<>>), R("S", <<"$Ta","S">>) >>)),
  C("left_rec_list", TRUE, Mk(<<"L">>, {"$X"},
     << R("L", <<>>), R("L", <<"L","$X">>) >>)),
  C("expr_term_factor", TRUE, Mk(<<"E","T","F">>, {"$Plus","$Times","$LP","$RP","$Id"},
     << R("E", <<"E","$Plus","T">>), R("E", <<"T">>), R("T", <<"T","$Times","F">>), R("T", <<"F">>),
        R("F", <<"$LP","E","$RP">>), R("F", <<"$Id">>) >>)),
  C("balanced_parens", TRUE, Mk(<<"Expr">>, {"$LParen","$RParen"},
     << R("Expr", <<>>), R("Expr", <<"$LParen","Expr","$RParen">>) >>)),
  C("unreachable_nt", TRUE, Mk(<<"S","U">>, {"$Ta","$Tb"},
     << R("S", <<"$Ta">>), R("U", <<"$Tb","U">>), R("U", <<"$Tb">>) >>)),
  C("unreachable_conflicting_nt", TRUE, Mk(<<"S","U">>, {"$Ta","$Tb"},
     << R("S", <<"$Ta">>), R("U", <<"U","$Tb","U">>), R("U", <<"$Tb">>) >>)),
  C("unproductive_nt", TRUE, Mk(<<"S","B">>, {"$Ta","$Tb"},
     << R("S", <<"$Ta">>), R("S", <<"B">>), R("B", <<"B","$Tb">>) >>)),
  C("unproductive_after_shift", TRUE, Mk(<<"S","B">>, {"$Ta","$Tb"},
     << R("S", <<"$Ta","$Ta">>), R("S", <<"$Ta","B">>), R("B", <<"$Tb","B">>) >>)),
  C("empty_language", TRUE, Mk(<<"S">>, {"$Ta"},
     << R("S", <<"S","$Ta">>) >>)),
  C("no_terminals_eps", TRUE, Mk(<<"S">>, {},
     << R("S", <<>>) >>)),
  C("no_terminals_two_nts", TRUE, Mk(<<"S","A">>, {},
     << R("S", <<"A","A">>), R("A", <<>>) >>)),
  C("variantless_start", TRUE, Mk(<<"S">>, {"$Ta"}, << >>)),
  C("variantless_child", TRUE, Mk(<<"S","E">>, {"$Ta"},
     << R("S", <<"$Ta">>), R("S", <<"E","$Ta">>) >>)),
  C("palindromes", FALSE, Mk(<<"S">>, {"$Ta","$Tb"},
     << R("S", <<"$Ta","S","$Ta">>), R("S", <<"$Tb","S","$Tb">>), R("S", <<>>) >>)),
  C("needs_two_lookahead", FALSE, Mk(<<"S","A","B">>, {"$Ta","$Tb","$Tc"},
     << R("S", <<"A","$Ta","$Ta">>), R("S", <<"B","$Ta","$Tb">>), R("A", <<"$Tc">>), R("B", <<"$Tc">>) >>)),
  C("nullable_chain", TRUE, Mk(<<"S","A","B","Cn">>, {"$Ta","$Tb","$Tc"},
     << R("S", <<"A","B","Cn">>), R("A", <<>>), R("A", <<"$Ta">>), R("B", <<>>), R("B", <<"$Tb">>),
        R("Cn", <<>>), R("Cn", <<"$Tc">>) >>)),
  C("unit_chain", TRUE, Mk(<<"S","A","B","Cn">>, {"$X"},
     << R("S", <<"A">>), R("A", <<"B">>), R("B", <<"Cn">>), R("Cn", <<"$X">>) >>)),
  C("hidden_left_rec", FALSE, Mk(<<"S","A">>, {"$Ta","$Tb"},
     << R("S", <<"A","S","$Tb">>), R("S", <<"$Ta">>), R("A", <<>>) >>)),
  C("same_rhs_two_nts_lalr", TRUE, Mk(<<"S","A","B">>, {"$Ta","$Tb","$Tc"},
     << R("S", <<"$Ta","A">>), R("S", <<"$Tb","B">>), R("A", <<"$Tc">>), R("B", <<"$Tc">>) >>)),
  C("reduce_reduce_eps", FALSE, Mk(<<"S","A","B">>, {"$Ta"},
     << R("S", <<"A","$Ta">>), R("S", <<"B","$Ta">>), R("A", <<>>), R("B", <<>>) >>)),
  C("json", TRUE, Mk(<<"Json","Obj","Arr","Elems","Pair","Members">>,
                     {"$LCurly","$RCurly","$LSquare","$RSquare","$Comma","$Colon","$Str","$Num"},
     << R("Json", <<"Obj">>), R("Json", <<"Arr">>), R("Json", <<"$Str">>), R("Json", <<"$Num">>),
        R("Obj", <<"$LCurly","Members","$RCurly">>), R("Obj", <<"$LCurly","$RCurly">>),
        R("Arr", <<"$LSquare","Elems","$RSquare">>), R("Arr", <<"$LSquare","$RSquare">>),
        R("Elems", <<"Json">>), R("Elems", <<"Elems","$Comma","Json">>),
        R("Pair", <<"$Str","$Colon","Json">>),
        R("Members", <<"Pair">>), R("Members", <<"Members","$Comma","Pair">>) >>))
}

ClassicSet == { c.g : c \in Classics }
=============================================================================
