----------------------------- MODULE Classics -----------------------------
(***************************************************************************)
(* Hand-written grammars that sit on the boundaries the properties name:   *)
(* LALR(1)-but-not-SLR(1), LR(1)-but-not-LALR(1), ambiguous, accept/reduce,*)
(* epsilon rules in every position, left/right/hidden recursion,           *)
(* unreachable and unproductive nonterminals, empty languages, no          *)
(* terminals, enums without variants, and two realistic grammars (JSON and *)
(* balanced parentheses).  Each is [name, g, lalr] where lalr is what the  *)
(* literature says about it (checked against LR1!ConflictFree by           *)
(* MC_Classics, so a wrong transcription cannot go unnoticed).             *)
(***************************************************************************)
EXTENDS Naturals, Sequences, FiniteSets

R(l, r) == [lhs |-> l, rhs |-> r]
Mk(ntseq, ts, rules) == [nts |-> { ntseq[i] : i \in DOMAIN ntseq }, ts |-> ts, start |-> ntseq[1], rules |-> rules]
C(name, lalr, g) == [name |-> name, lalr |-> lalr, g |-> g]

Classics == {
  C("lalr_not_slr", TRUE, Mk(<<"S","L","Rv">>, {"$Eq","$Star","$Id"},
     << R("S", <<"L","$Eq","Rv">>), R("S", <<"Rv">>), R("L", <<"$Star","Rv">>), R("L", <<"$Id">>), R("Rv", <<"L">>) >>)),
  C("lr1_not_lalr", FALSE, Mk(<<"S","A","B">>, {"$A","$B","$C","$D","$E"},
     << R("S", <<"$A","A","$D">>), R("S", <<"$B","B","$D">>), R("S", <<"$A","B","$E">>), R("S", <<"$B","A","$E">>),
        R("A", <<"$C">>), R("B", <<"$C">>) >>)),
  C("lalr_eps_lookahead", TRUE, Mk(<<"S","A","B">>, {"$A","$B"},
     << R("S", <<"$A","A","$A">>), R("S", <<"$B","A","$B">>), R("S", <<"$A","B","$B">>), R("S", <<"$B","B","$A">>),
        R("A", <<>>), R("B", <<>>) >>)),
  C("ambiguous_expr", FALSE, Mk(<<"E">>, {"$Plus","$Id"},
     << R("E", <<"E","$Plus","E">>), R("E", <<"$Id">>) >>)),
  C("dangling_else", FALSE, Mk(<<"S">>, {"$If","$Else","$Other"},
     << R("S", <<"$If","S">>), R("S", <<"$If","S","$Else","S">>), R("S", <<"$Other">>) >>)),
  C("accept_reduce", FALSE, Mk(<<"S">>, {"$A"},
     << R("S", <<"S">>), R("S", <<"$A">>) >>)),
  C("unit_cycle_only", FALSE, Mk(<<"S">>, {"$A"},
     << R("S", <<"S">>) >>)),
  C("eps_in_middle", TRUE, Mk(<<"S","B">>, {"$A","$B","$C"},
     << R("S", <<"$A","B","$C">>), R("B", <<>>), R("B", <<"$B">>) >>)),
  C("nullable_start_right_rec", TRUE, Mk(<<"S">>, {"$A"},
     << R("S", <<>>), R("S", <<"$A","S">>) >>)),
  C("left_rec_list", TRUE, Mk(<<"L">>, {"$X"},
     << R("L", <<>>), R("L", <<"L","$X">>) >>)),
  C("expr_term_factor", TRUE, Mk(<<"E","T","F">>, {"$Plus","$Times","$LP","$RP","$Id"},
     << R("E", <<"E","$Plus","T">>), R("E", <<"T">>), R("T", <<"T","$Times","F">>), R("T", <<"F">>),
        R("F", <<"$LP","E","$RP">>), R("F", <<"$Id">>) >>)),
  C("balanced_parens", TRUE, Mk(<<"Expr">>, {"$LParen","$RParen"},
     << R("Expr", <<>>), R("Expr", <<"$LParen","Expr","$RParen">>) >>)),
  C("unreachable_nt", TRUE, Mk(<<"S","U">>, {"$A","$B"},
     << R("S", <<"$A">>), R("U", <<"$B","U">>), R("U", <<"$B">>) >>)),
  C("unreachable_conflicting_nt", TRUE, Mk(<<"S","U">>, {"$A","$B"},
     << R("S", <<"$A">>), R("U", <<"U","$B","U">>), R("U", <<"$B">>) >>)),
  C("unproductive_nt", TRUE, Mk(<<"S","B">>, {"$A","$B"},
     << R("S", <<"$A">>), R("S", <<"B">>), R("B", <<"B","$B">>) >>)),
  C("unproductive_after_shift", TRUE, Mk(<<"S","B">>, {"$A","$B"},
     << R("S", <<"$A","$A">>), R("S", <<"$A","B">>), R("B", <<"$B","B">>) >>)),
  C("empty_language", TRUE, Mk(<<"S">>, {"$A"},
     << R("S", <<"S","$A">>) >>)),
  C("no_terminals_eps", TRUE, Mk(<<"S">>, {},
     << R("S", <<>>) >>)),
  C("no_terminals_two_nts", TRUE, Mk(<<"S","A">>, {},
     << R("S", <<"A","A">>), R("A", <<>>) >>)),
  C("variantless_start", TRUE, Mk(<<"S">>, {"$A"}, << >>)),
  C("variantless_child", TRUE, Mk(<<"S","E">>, {"$A"},
     << R("S", <<"$A">>), R("S", <<"E","$A">>) >>)),
  C("palindromes", FALSE, Mk(<<"S">>, {"$A","$B"},
     << R("S", <<"$A","S","$A">>), R("S", <<"$B","S","$B">>), R("S", <<>>) >>)),
  C("needs_two_lookahead", FALSE, Mk(<<"S","A","B">>, {"$A","$B","$C"},
     << R("S", <<"A","$A","$A">>), R("S", <<"B","$A","$B">>), R("A", <<"$C">>), R("B", <<"$C">>) >>)),
  C("nullable_chain", TRUE, Mk(<<"S","A","B","Cn">>, {"$A","$B","$C"},
     << R("S", <<"A","B","Cn">>), R("A", <<>>), R("A", <<"$A">>), R("B", <<>>), R("B", <<"$B">>),
        R("Cn", <<>>), R("Cn", <<"$C">>) >>)),
  C("unit_chain", TRUE, Mk(<<"S","A","B","Cn">>, {"$X"},
     << R("S", <<"A">>), R("A", <<"B">>), R("B", <<"Cn">>), R("Cn", <<"$X">>) >>)),
  C("hidden_left_rec", FALSE, Mk(<<"S","A">>, {"$A","$B"},
     << R("S", <<"A","S","$B">>), R("S", <<"$A">>), R("A", <<>>) >>)),
  C("same_rhs_two_nts_lalr", TRUE, Mk(<<"S","A","B">>, {"$A","$B","$C"},
     << R("S", <<"$A","A">>), R("S", <<"$B","B">>), R("A", <<"$C">>), R("B", <<"$C">>) >>)),
  C("reduce_reduce_eps", FALSE, Mk(<<"S","A","B">>, {"$A"},
     << R("S", <<"A","$A">>), R("S", <<"B","$A">>), R("A", <<>>), R("B", <<>>) >>)),
  C("json", TRUE, Mk(<<"Json","Obj","Arr","Elems","Pair","Members">>,
                     {"$LCurly","$RCurly","$LSquare","$RSquare","$Comma","$Colon","$Str","$Num"},
     << R("Json", <<"Obj">>), R("Json", <<"Arr">>), R("Json", <<"$Str">>), R("Json", <<"$Num">>),
        R("Obj", <<"$LCurly","Members","$RCurly">>), R("Obj", <<"$LCurly","$RCurly">>),
        R("Arr", <<"$LSquare","Elems","$RSquare">>), R("Arr", <<"$LSquare","$RSquare">>),
        R("Elems", <<"Json">>), R("Elems", <<"Elems","$Comma","Json">>),
        R("Pair", <<"$Str","$Colon","Json">>),
        R("Members", <<"Pair">>), R("Members", <<"Members","$Comma","Pair">>) >>))
}

ClassicSet == { c.g : c \in Classics }
=============================================================================
