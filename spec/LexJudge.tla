----------------------------- MODULE LexJudge -----------------------------
(* End-state conformance for the tokenizer: each record holds a source (code points) and what the REAL tokenize
   returned; it is judged with LexRef!Admissible, the declarative lexical rules.  OBS: ND-JSON [id, src, t, i, c, out]. *)
EXTENDS LexRef, TLC, Json, IOUtils
Obs == ndJsonDeserialize(IOEnv.OBS)
Judge(r) ==
  LET ref == RefLex(r.src)
      res == IF r.t = "ok" THEN OK ELSE ERR(r.i, r.c)
      out == [k \in DOMAIN r.out |-> Tok(r.out[k].k, r.out[k].s, r.out[k].l)]
      why == IF r.t = "ok" /\ ~ref.ok THEN "lexically invalid text was tokenised"
             ELSE IF r.t = "ok" /\ out # ref.out THEN "token stream differs from the documented longest-match tokenisation"
             ELSE IF r.t = "err" /\ ref.ok THEN "lexically valid text was rejected"
             ELSE IF r.t = "err" /\ res \notin ref.errs THEN "the lexical error does not identify the first offending character"
             ELSE ""
  IN [id |-> r.id, ok |-> (why = ""), why |-> why,
      expect |-> [ok |-> ref.ok, errs |-> ref.errs, ntokens |-> Len(ref.out)]]
VARIABLE l
Init == l = 1
Next == l <= Len(Obs) /\ PrintT(<<"LJUDGE", ToJson(Judge(Obs[l]))>>) /\ l' = l + 1
Done == TLCGet("stats").diameter - 1 = Len(Obs)
=============================================================================
