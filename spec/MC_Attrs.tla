----------------------------- MODULE MC_Attrs -----------------------------
(***************************************************************************)
(* C12, lexical half: which texts `#[` body `]` are ONE outer-attribute    *)
(* token whose text is the whole thing.  Bodies are sequences of at most K *)
(* atoms (brackets of all three kinds, letters, space, quote, `/`, `//`,   *)
(* `#`, `=`, comma, 2-/3-/4-byte characters, no-break space, CR).  For     *)
(* every body the declarative lexical rules (LexRef) say either "exactly   *)
(* one OuterAttribute token spanning the whole text" or give the set of    *)
(* admissible lexical errors; the line is printed for replay on the real   *)
(* code, which must then reproduce the attribute byte for byte (placement: *)
(* Emit!AttrPlacementOK, MC_Emit MODE=attrs).                              *)
(***************************************************************************)
EXTENDS LexRef, TLC, Json, IOUtils
BodyAtoms == { <<40>>, <<41>>, <<91>>, <<93>>, <<123>>, <<125>>, <<97>>, <<32>>, <<34>>, <<47>>, <<47, 47>>, <<35>>, <<61>>, <<44>>,
               <<233>>, <<8364>>, <<128512>>, <<160>>, <<13>> }
K == atoi(IOEnv.K)
VARIABLES body, k
Init == body = <<>> /\ k = 0
Next == k < K /\ k' = k + 1 /\ \E a \in BodyAtoms : body' = body \o a
Whole == <<POUND, LBRACK>> \o body \o <<93>>
IsOneAttr(r, n) == r.ok /\ Len(r.out) = 1 /\ r.out[1].k = "OuterAttribute" /\ r.out[1].s = 0 /\ r.out[1].l = n
\* a text is a single attribute iff its brackets are balanced by kind and it closes exactly at the end
PrintCases ==
  LET r == RefLex(Whole) n == Bytes(Whole, 1, Len(Whole)) IN
  PrintT(<<"ATTR", ToJson([body |-> body, one |-> IsOneAttr(r, n), ok |-> r.ok, errs |-> r.errs, ntok |-> Len(r.out)])>>)
=============================================================================
