---------------------------- MODULE MC_Builder ----------------------------
(* Exhaustive check of Builder.tla.
   Spec     : every grammar of a bounded universe (environment variable UNIVERSE) and the small classics, under
              EVERY worklist schedule and every symbol order.
   FifoSpec : every classic (including the large ones), queue served first-in first-out as the code does, symbol
              order still free; also used for the liveness check (the construction terminates). *)
EXTENDS Builder, Universe, Classics, IOUtils, Numbering
UPick == CASE IOEnv.UNIVERSE = "U1" -> U1
           [] IOEnv.UNIVERSE = "U2" -> U2
           [] IOEnv.UNIVERSE = "U3a" -> U3a
           [] IOEnv.UNIVERSE = "U3b" -> U3b
           [] IOEnv.UNIVERSE = "none" -> {}
SmallClassics == { c.g : c \in { d \in Classics : Len(d.g.rules) <= 3 } }
GU == UPick \cup SmallClassics
Init == BInit(GU)
Next == BNext
Spec == Init /\ [][Next]_bvars
FifoInit == BInit(UPick \cup ClassicSet)
FifoSpec == FifoInit /\ [][BNextFifo]_bvars /\ WF_bvars(BNextFifo)
Terminates == <>(ph = "done")
(* normalize_machine (Numbering.tla): sorting the states by content turns the schedule-dependent result of the builder
   into ONE machine, the one defined from the declarative LALR(1) automaton - for every schedule and symbol order.
   The terminal order is any fixed total order here (the code's is the byte order of the names). *)
TRankOf(G) == LET s == SetToSeq(G.ts) IN [t \in G.ts |-> CHOOSE k \in DOMAIN s : s[k] = t]
NormalFormIsCanonical ==
  ph = "done" =>
    LET tr == TRankOf(ctx.G)
        LS == LALRStates(ctx)
        perm == SortPerm(tr, states)
    IN /\ IsBijection(perm, Len(states))
       /\ StrictTotal(tr, LS)
       /\ Normalize(AsMachine, perm) = CanonMachine(ctx, LS, tr)
=============================================================================
