---------------------------- MODULE MC_Hygiene ----------------------------
(***************************************************************************)
(* Hygiene.tla for every assignment of pool names to at most two user      *)
(* roles at a time (all other roles keep a benign name) on a skeleton      *)
(* that has a named-struct start symbol, an enum, a tuple struct, a        *)
(* unit-like struct, two terminals and the terminal enum.  The pool holds  *)
(* every name the generator prefers for its own items, their ...2 forms,   *)
(* the names of template-internal variants and associated items, and       *)
(* letter-less identifiers.  Preconditions of C05 are constraints of the   *)
(* model: no keywords, no prelude items, top-level names pairwise distinct *)
(* (validation enforces that).  Each completed naming is printed with the  *)
(* allocator's result: the replay set for the real generate and rustc.     *)
(***************************************************************************)
EXTENDS Hygiene, Json, IOUtils
TypePool == {"Eof", "Eof2", "Quasiterminal", "Quasiterminal2", "QuasiterminalKind", "NonterminalKind", "State", "State2", "Node", "Node2",
             "Action", "RuleKind", "ACTION_TABLE", "GOTO_TABLE", "ACTION_TABLE2", "S", "S2", "T", "Terminal", "Error", "Item", "Shift",
             "Reduce", "Accept", "S0", "R0", "_1", "__", "Self_", "Token"}
FieldPool == {"states", "nodes", "src", "t0", "quasiterminals", "reduce", "parse", "top_state", "node", "_1", "t", "n"}
Benign == [tenum |-> "Tok", t1 |-> "Ta", start |-> "Start0", en |-> "En", v1 |-> "Va", tu |-> "Tu", un |-> "Un", em |-> "Em", f1 |-> "fld"]
\* em: a variant-less enum (a nonterminal WITHOUT any production; it is still a defined identifier and an emitted type)
TypeRoles == {"tenum", "t1", "start", "en", "v1", "tu", "un", "em"}
Assign(rs) == \* rs: function from a set of roles to names
  [r \in DOMAIN Benign |-> IF r \in DOMAIN rs THEN rs[r] ELSE Benign[r]]
Mk(a) == [tenum |-> a.tenum, terms |-> <<a.t1, "Tb">>, start |-> a.start,
          nts |-> << [name |-> a.start, kind |-> "named", variants |-> <<>>, fields |-> <<a.f1, "other">>],
                     [name |-> a.en, kind |-> "enum", variants |-> <<a.v1, "Vb", "Vc">>, fields |-> <<>>],
                     [name |-> a.tu, kind |-> "tuple", variants |-> <<>>, fields |-> <<>>],
                     [name |-> a.un, kind |-> "unit", variants |-> <<>>, fields |-> <<>>],
                     [name |-> a.em, kind |-> "enum", variants |-> <<>>, fields |-> <<>>] >>]
TopDistinct(a) == Cardinality({a.tenum, a.t1, "Tb", a.start, a.en, a.tu, a.un, a.em}) = 8 /\ a.v1 \notin {"Vb", "Vc"}
One == { Assign([x \in {r} |-> n]) : r \in TypeRoles, n \in TypePool } \cup { Assign([x \in {"f1"} |-> n]) : n \in FieldPool }
RoleSeq == <<"tenum", "t1", "start", "en", "v1", "tu", "un", "em">>
Two == UNION { { Assign([x \in {RoleSeq[p[1]], RoleSeq[p[2]]} |-> IF x = RoleSeq[p[1]] THEN n1 ELSE n2]) : n1 \in TypePool, n2 \in TypePool }
               : p \in { q \in (1..8) \X (1..8) : q[1] < q[2] } }
\* PAIRS = "1": every pair of roles; otherwise single roles exhaustively plus the seeded sample of pairs in the file EXTRA
Extra == IF IOEnv.EXTRA = "" THEN {} ELSE { r : r \in SeqSet(ndJsonDeserialize(IOEnv.EXTRA)) }
Namings == { Mk(a) : a \in { b \in (IF IOEnv.PAIRS = "1" THEN One \cup Two ELSE One \cup Extra) : TopDistinct(b) } }
Init == HInit(Namings)
Next == AllocNext
PrintNamings == Done => PrintT(<<"NAMING", ToJson([nm |-> nm, chosen |-> chosen])>>)
=============================================================================
