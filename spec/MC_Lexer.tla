----------------------------- MODULE MC_Lexer -----------------------------
(***************************************************************************)
(* Exhaustive check: on every source made of at most K atoms, the state    *)
(* machine (Lexer.tla, mirroring tokenize.rs) and the declarative          *)
(* longest-match definition (LexRef.tla) agree - token kinds, byte spans   *)
(* and lexical error reports - and the byte accounting invariant holds.    *)
(* An atom is a short code-point sequence chosen to reach every branch     *)
(* and every boundary: reserved words, identifiers with digits and         *)
(* underscores, `$`, `:`/`::`, each punctuation char, `#`, `#[`, all six   *)
(* brackets, `/`, `//`, ASCII and multi-byte whitespace, CR LF, NEL,       *)
(* 2-, 3- and 4-byte characters, digits, quotes, `=`, zero-width space.    *)
(* Feeding one atom is one TLC step, so the number of distinct states is   *)
(* the number of distinct sources.  With PRINT = "1" every source is       *)
(* printed with the predicted result: the replay set for the real code.    *)
(***************************************************************************)
EXTENDS Lexer, LexRef, TLC, Json, IOUtils

Atoms == { W_us, W_start, W_enum, W_struct, W_terminal, <<97>>, <<90, 57>>, <<120, 95, 49>>, <<DOLLAR>>, <<COLON>>, <<COLON, COLON>>,
           <<44>>, <<40>>, <<41>>, <<123>>, <<125>>, <<60>>, <<62>>, <<91>>, <<93>>, <<POUND>>, <<POUND, LBRACK>>,
           <<SLASH>>, <<SLASH, SLASH>>, <<32>>, <<9>>, <<NLc>>, <<13, NLc>>, <<13>>,
           <<160>>, <<12288>>, <<133>>, <<233>>, <<8364>>, <<128512>>, <<49>>, <<34>>, <<33>>, <<61>>, <<8203>> }
\* the cheap subset used for the deepest level (thorough tier): one representative per lexical class
CoreAtoms == { W_us, W_start, <<97>>, <<DOLLAR>>, <<COLON>>, <<44>>, <<40>>, <<41>>, <<91>>, <<93>>, <<125>>, <<POUND, LBRACK>>,
               <<SLASH, SLASH>>, <<SLASH>>, <<32>>, <<NLc>>, <<12288>>, <<233>>, <<128512>>, <<49>>, <<POUND>> }
K == atoi(IOEnv.K)
AtomSet == IF IOEnv.ATOMS = "core" THEN CoreAtoms ELSE Atoms
\* the character sweep (ATOMS = "sweep", K = 3): context, ONE character, context - every ASCII character (controls
\* included), every Unicode White_Space character and the code points next to them, a few multi-byte letters; in every
\* lexical context a character can follow or precede (nothing, identifier, `$`, terminal identifier, open attribute,
\* comment, colon, underscore, keyword, bracket)
\* one or more representatives of every Unicode general category and of the derived properties Rust's char predicates use
\* (is_alphabetic, is_numeric, is_alphanumeric, is_uppercase, is_lowercase, is_control): none of them is an ASCII letter,
\* digit or underscore, so none may become part of an identifier, and only White_Space may be skipped
UniClasses == { 170, 178, 179, 181, 185, 186, 188, 189, 192, 223, 255, 453, 688, 768, 769, 837, 1072, 1488, 1632, 1635, 2307, 2406, 2407, 3664, 4969,
                8255, 8256, 8276, 8304, 8320, 8453, 8544, 8551, 8560, 9312, 9450, 12295, 12353, 19968, 20013, 44032, 65075, 65101, 65284, 65283, 65296, 65297,
                65306, 65313, 65343, 65345, 65371, 66560, 119808, 120782, 127232, 131072, 57344, 173, 1564, 8205, 8206, 8232, 917505, 65532, 65533 }
SweepChars == { <<c>> : c \in (0..127) \cup WS \cup {128, 132, 134, 159, 161, 173, 5759, 5761, 6158, 8191, 8203, 8204, 8231, 8234, 8238, 8240,
                                                      8286, 8288, 12287, 12289, 65279, 233, 8364, 128512, 1114111} \cup UniClasses }
SweepContexts == { <<>>, <<97>>, <<DOLLAR>>, <<DOLLAR, 65>>, <<POUND, LBRACK>>, <<POUND, LBRACK, 97>>, <<SLASH, SLASH>>, <<SLASH>>, <<COLON>>,
                   W_us, W_start, <<40>>, <<NLc>> }
AtomsAt(j) == IF IOEnv.ATOMS = "sweep" THEN (IF j = 1 THEN SweepChars ELSE SweepContexts) ELSE AtomSet

VARIABLE k
RECURSIVE FeedAll(_, _)
\* consume the chars of atom a one by one (LStep iterated): returns the record of new variable values
FeedAll(a, cur) ==
  IF a = <<>> \/ cur.res # RUN THEN cur
  ELSE LET c == Head(a)
           src2 == Append(cur.src, c)
           r == StepC(src2, cur.st, cur.out, c, cur.pos, Len(src2))
       IN FeedAll(Tail(a), [src |-> src2, pos |-> cur.pos + Utf8Len(c), st |-> r.st, out |-> r.out, res |-> r.res,
                            full |-> cur.full])
Init == LInit /\ k = 0
\* once the machine has stopped with an error the rest of the text is irrelevant: sources are explored up to the error
Feed(a) ==
  /\ k < K /\ lres = RUN
  /\ LET r == FeedAll(a, [src |-> lsrc, pos |-> lpos, st |-> lst, out |-> lout, res |-> lres, full |-> lsrc \o a]) IN
       /\ lsrc' = r.full /\ lpos' = lpos + Bytes(a, 1, Len(a)) /\ lst' = r.st /\ lout' = r.out /\ lres' = r.res
  /\ k' = k + 1
Next == \E a \in AtomsAt(k) : Feed(a)

\* what tokenize() returns for the source consumed so far
Result == IF lres = RUN THEN AtEnd(lsrc, lpos, lst, lout) ELSE [res |-> lres, out |-> lout]
\* C08: machine == documented rules
Agree == Admissible(lsrc, Result.res, Result.out)
Accounting == ByteAccounting
PrintCases == IOEnv.PRINT = "1" =>
   PrintT(<<"LEX", ToJson([src |-> lsrc, res |-> Result.res, out |-> Result.out, errs |-> RefLex(lsrc).errs])>>)
=============================================================================
