---------------------------- MODULE MC_Closure ----------------------------
(* Exhaustive check of Closure.tla.
   Spec     : every grammar of a bounded universe (environment variable UNIVERSE) and the classics with at most 4
              rules, every kernel the builder can close, the queue served at ANY position.
   FifoSpec : every classic, first-in first-out as the code does, implied items appended in every order (cut off by
              FIFOCAP alternatives per step for the large classics); also the termination check. *)
EXTENDS Closure, Universe, Classics, IOUtils
UPick == CASE IOEnv.UNIVERSE = "U1" -> U1
           [] IOEnv.UNIVERSE = "U2" -> U2
           [] IOEnv.UNIVERSE = "U3a" -> U3a
           [] IOEnv.UNIVERSE = "U3b" -> U3b
           [] IOEnv.UNIVERSE = "none" -> {}
SmallClassics == { c.g : c \in { d \in Classics : Len(d.g.rules) <= 4 } }
Init == CInit(UPick \cup SmallClassics)
Spec == Init /\ [][CNext]_cvars
\* FIFO: kernel in one order, implied items in every order when there are at most 3 of them, else in one order
FifoInit == /\ cg \in (UPick \cup ClassicSet) /\ cctx = Ctx(cg) /\ ckernel \in Kernels(cctx)
            /\ cqueue = OneSeqOf(ckernel) /\ citems = {} /\ cpops = 0 /\ cdone = FALSE /\ cwant = Closure(cctx, ckernel)
FifoStep == \/ Skip(1)
            \/ (cqueue # <<>> /\ LET I == Implied(cctx, cqueue[1])
                                 IN IF Cardinality(I) <= 3 THEN \E o \in AnySeqOf(I) : Expand(1, o)
                                    ELSE Expand(1, OneSeqOf(I)))
            \/ CFinish
FifoSpec == FifoInit /\ [][FifoStep]_cvars /\ WF_cvars(FifoStep)
Terminates == <>cdone
=============================================================================
