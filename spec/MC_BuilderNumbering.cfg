SPECIFICATION Spec
INVARIANT NormalFormIsCanonical
VIEW BView
CHECK_DEADLOCK FALSE
