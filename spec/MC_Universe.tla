---------------------------- MODULE MC_Universe ----------------------------
(* Dumps a universe (selected by the environment variable UNIVERSE) as ND-JSON to the file OUT. *)
EXTENDS Universe, Classics, TLC, Json, IOUtils, SequencesExt
Pick == CASE IOEnv.UNIVERSE = "U1" -> U1
          [] IOEnv.UNIVERSE = "U2" -> U2
          [] IOEnv.UNIVERSE = "U3a" -> U3a
          [] IOEnv.UNIVERSE = "U3b" -> U3b
          [] IOEnv.UNIVERSE = "classics" -> ClassicSet
ToRec(G) == [nts |-> SetAsSeq(G.nts), ts |-> SetAsSeq(G.ts), start |-> G.start, rules |-> G.rules]
ASSUME LET S == SetToSeq({ ToRec(G) : G \in Pick }) IN
   /\ ndJsonSerialize(IOEnv.OUT, S)
   /\ PrintT(<<"UNIVERSE", IOEnv.UNIVERSE, Len(S)>>)
VARIABLE x
Init == x = 0
Next == UNCHANGED x
=============================================================================
