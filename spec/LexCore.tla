------------------------------ MODULE LexCore ------------------------------
(***************************************************************************)
(* The tokenizer as the implementation performs it (tokenize.rs): a state  *)
(* machine that consumes one `char` at a time, with nine state kinds, byte *)
(* offsets kept in the state, a "flush the pending token and re-dispatch   *)
(* the same char" path, and a final flush at end of input.                 *)
(*                                                                         *)
(* Characters are Unicode code points (naturals); a source is a sequence   *)
(* of code points; byte offsets are UTF-8 offsets.  NONE (one past the     *)
(* largest code point) stands for "end of input" in error reports.         *)
(*                                                                         *)
(* This module specifies the behaviour the properties REQUIRE, structured  *)
(* like the code.  Where the pinned revision deviated (multi-byte          *)
(* characters inside attributes advanced the end offset by 1; bracket      *)
(* errors were reported relative to the attribute; an unterminated         *)
(* attribute at end of input was accepted as a token) the specification    *)
(* states the repaired behaviour.                                          *)
(*                                                                         *)
(* State record: [kind, a, b, d, ca]                                       *)
(*   kind : "Main" "Slash" "Comment" "Ident" "Dollar" "TIdent" "Colon"     *)
(*          "Pound" "Attr"                                                 *)
(*   a    : byte offset where the pending token starts                     *)
(*   b    : byte offset one past its last consumed char (Ident/TIdent/Attr)*)
(*   d    : open-bracket depth (Attr)                                      *)
(*   ca   : CHAR index where the pending token starts (ghost: the code     *)
(*          slices the source by byte offsets; the spec slices by char     *)
(*          index and PROVES the two agree - invariant ByteAccounting)     *)
(***************************************************************************)
EXTENDS Naturals, Sequences, FiniteSets

Utf8Len(c) == IF c < 128 THEN 1 ELSE IF c < 2048 THEN 2 ELSE IF c < 65536 THEN 3 ELSE 4
\* char::is_whitespace: the Unicode White_Space property
WS == {9, 10, 11, 12, 13, 32, 133, 160, 5760, 8232, 8233, 8239, 8287, 12288} \cup (8192..8202)
IsWs(c) == c \in WS
IsAlpha(c) == (c >= 65 /\ c <= 90) \/ (c >= 97 /\ c <= 122)
IsDigit(c) == c >= 48 /\ c <= 57
IsIdStart(c) == IsAlpha(c) \/ c = 95
IsIdCont(c) == IsAlpha(c) \/ IsDigit(c) \/ c = 95
NLc == 10
SLASH == 47
DOLLAR == 36
COLON == 58
POUND == 35
LBRACK == 91
Openers == {40, 91, 123}
Closers == {41, 93, 125}
Match(o, c) == (o = 40 /\ c = 41) \/ (o = 91 /\ c = 93) \/ (o = 123 /\ c = 125)
PunctKind(c) == CASE c = 44 -> "Comma" [] c = 40 -> "LParen" [] c = 41 -> "RParen" [] c = 123 -> "LCurly"
                  [] c = 125 -> "RCurly" [] c = 60 -> "LAngle" [] c = 62 -> "RAngle" [] OTHER -> "none"
W_us == <<95>>
W_start == <<115, 116, 97, 114, 116>>
W_struct == <<115, 116, 114, 117, 99, 116>>
W_enum == <<101, 110, 117, 109>>
W_terminal == <<116, 101, 114, 109, 105, 110, 97, 108>>
ReservedKind(w) == CASE w = W_us -> "Underscore" [] w = W_start -> "StartKw" [] w = W_struct -> "StructKw"
                     [] w = W_enum -> "EnumKw" [] w = W_terminal -> "TerminalKw" [] OTHER -> "none"
NONE == 1114112

\* byte offset of char index i (1-based); Off(src, Len(src)+1) is the byte length
RECURSIVE Off(_, _)
Off(src, i) == IF i = 1 THEN 0 ELSE Off(src, i - 1) + Utf8Len(src[i - 1])

\* a token: kind, byte offset of its first byte, byte length (its text is that slice of the source)
Tok(k, s, l) == [k |-> k, s |-> s, l |-> l]
\* results are records of one shape so that TLC can compare them
RUN == [t |-> "run", i |-> 0, c |-> 0]
OK == [t |-> "ok", i |-> 0, c |-> 0]
ERR(i, c) == [t |-> "err", i |-> i, c |-> c]

Main == [kind |-> "Main", a |-> 0, b |-> 0, d |-> 0, ca |-> 0]
St(k, a, b, d, ca) == [kind |-> k, a |-> a, b |-> b, d |-> d, ca |-> ca]
Out(st, out, res) == [st |-> st, out |-> out, res |-> res]

\* finish_outer_attribute: the bracket KINDS of src[from..to] (char indices) must nest properly;
\* off is the byte offset of src[from].  Returns OK or the error for the first bad closer (absolute offset).
RECURSIVE BrCheck(_, _, _, _, _)
BrCheck(src, i, to, off, stack) ==
  IF i > to THEN OK
  ELSE LET c == src[i] IN
       IF c \in Openers THEN BrCheck(src, i + 1, to, off + Utf8Len(c), Append(stack, c))
       ELSE IF c \in Closers THEN
              IF stack = <<>> THEN ERR(off, c)
              ELSE IF Match(stack[Len(stack)], c) THEN BrCheck(src, i + 1, to, off + Utf8Len(c), SubSeq(stack, 1, Len(stack) - 1))
              ELSE ERR(off, c)
       ELSE BrCheck(src, i + 1, to, off + Utf8Len(c), stack)

\* push_pending_token_and_reset_state(cur, curIdx): cur/curIdx describe the char that ended the token (NONE at end of input);
\* upto is the char index of the last char belonging to the pending token
Flush(src, st, out, cur, curIdx, upto) ==
  CASE st.kind = "Main" -> Out(Main, out, RUN)
    [] st.kind = "Slash" -> Out(st, out, ERR(st.a, SLASH))
    [] st.kind = "Comment" -> Out(Main, out, RUN)
    [] st.kind = "Ident" ->
         LET rk == ReservedKind(SubSeq(src, st.ca, upto)) IN
         Out(Main, Append(out, Tok(IF rk = "none" THEN "Ident" ELSE rk, st.a, st.b - st.a)), RUN)
    [] st.kind = "Dollar" -> Out(st, out, ERR(st.a, DOLLAR))
    [] st.kind = "TIdent" ->
         IF ReservedKind(SubSeq(src, st.ca + 1, upto)) # "none" THEN Out(st, out, ERR(curIdx, cur))
         ELSE Out(Main, Append(out, Tok("TerminalIdent", st.a, st.b - st.a)), RUN)
    [] st.kind = "Colon" -> Out(Main, Append(out, Tok("Colon", st.a, 1)), RUN)
    [] st.kind = "Pound" -> Out(st, out, ERR(st.a, POUND))
    [] st.kind = "Attr" -> Out(st, out, ERR(curIdx, cur))    \* only reachable at end of input: unterminated attribute

\* the closing bracket that brings the depth to zero has been consumed: src[st.ca .. upto] is the whole `#[...]`
FinishAttr(src, st, out, e, upto) ==
  LET chk == BrCheck(src, st.ca + 1, upto, st.a + 1, <<>>) IN
  IF chk = OK THEN Out(Main, Append(out, Tok("OuterAttribute", st.a, e - st.a)), RUN)
  ELSE Out(st, out, chk)

\* handle_char: consume char c = src[ci] at byte offset idx
RECURSIVE StepC(_, _, _, _, _, _)
StepC(src, st, out, c, idx, ci) ==
  LET len == Utf8Len(c) IN
  CASE st.kind = "Main" ->
         IF IsWs(c) THEN Out(Main, out, RUN)
         ELSE IF c = SLASH THEN Out(St("Slash", idx, 0, 0, ci), out, RUN)
         ELSE IF IsIdStart(c) THEN Out(St("Ident", idx, idx + len, 0, ci), out, RUN)
         ELSE IF c = DOLLAR THEN Out(St("Dollar", idx, 0, 0, ci), out, RUN)
         ELSE IF c = COLON THEN Out(St("Colon", idx, 0, 0, ci), out, RUN)
         ELSE IF c = POUND THEN Out(St("Pound", idx, 0, 0, ci), out, RUN)
         ELSE IF PunctKind(c) # "none" THEN Out(Main, Append(out, Tok(PunctKind(c), idx, 1)), RUN)
         ELSE Out(st, out, ERR(idx, c))
    [] st.kind = "Slash" -> IF c = SLASH THEN Out(St("Comment", 0, 0, 0, 0), out, RUN)
                            ELSE Out(st, out, ERR(st.a, SLASH))
    [] st.kind = "Comment" -> Out(IF c = NLc THEN Main ELSE st, out, RUN)
    [] st.kind = "Ident" -> IF IsIdCont(c) THEN Out(St("Ident", st.a, st.b + len, 0, st.ca), out, RUN)
                            ELSE LET f == Flush(src, st, out, c, idx, ci - 1) IN
                                 IF f.res # RUN THEN f ELSE StepC(src, f.st, f.out, c, idx, ci)
    [] st.kind = "Dollar" -> IF IsIdStart(c) THEN Out(St("TIdent", st.a, st.a + 1 + len, 0, st.ca), out, RUN)
                             ELSE Out(st, out, ERR(st.a, DOLLAR))
    [] st.kind = "TIdent" -> IF IsIdCont(c) THEN Out(St("TIdent", st.a, st.b + len, 0, st.ca), out, RUN)
                             ELSE LET f == Flush(src, st, out, c, idx, ci - 1) IN
                                  IF f.res # RUN THEN f ELSE StepC(src, f.st, f.out, c, idx, ci)
    [] st.kind = "Colon" -> IF c = COLON THEN Out(Main, Append(out, Tok("DoubleColon", st.a, 2)), RUN)
                            ELSE LET f == Flush(src, st, out, c, idx, ci - 1) IN StepC(src, f.st, f.out, c, idx, ci)
    [] st.kind = "Pound" -> IF c = LBRACK THEN Out(St("Attr", st.a, idx + 1, 1, st.ca), out, RUN)
                            ELSE Out(st, out, ERR(st.a, POUND))
    [] st.kind = "Attr" ->
         IF c \in Openers THEN Out(St("Attr", st.a, st.b + len, st.d + 1, st.ca), out, RUN)
         ELSE IF c \in Closers THEN
                IF st.d = 1 THEN FinishAttr(src, st, out, st.b + len, ci)
                ELSE Out(St("Attr", st.a, st.b + len, st.d - 1, st.ca), out, RUN)
         ELSE IF c = NLc THEN Out(st, out, ERR(idx, NLc))
         ELSE Out(St("Attr", st.a, st.b + len, st.d, st.ca), out, RUN)
=============================================================================
