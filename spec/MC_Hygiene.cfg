INIT Init
NEXT Next
INVARIANT FreshDistinct
INVARIANT FreshAvoidUser
INVARIANT Hygienic
INVARIANT PrintNamings
CHECK_DEADLOCK FALSE
