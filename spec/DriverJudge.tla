---------------------------- MODULE DriverJudge ----------------------------
(***************************************************************************)
(* End-state conformance for the emitted parser on inputs LONGER than the  *)
(* exhaustively explored ones (DESIGN.md 4 (C)).  The harness ran real     *)
(* emitted parsers (compiled by rustc) on seeded random inputs of up to 40 *)
(* tokens and recorded what they returned and how many items they pulled.  *)
(* Each record is judged against the LALR(1) driver of the specification   *)
(* (the tables Driver!DTables computes from LR1!LALRStates, whose          *)
(* agreement with the parser-free oracles TLC has shown exhaustively on    *)
(* the bounded universes in MC_Driver).                                    *)
(*   GRAMMARS : ND-JSON [id, nts, ts, start, rules]                        *)
(*   OBS      : ND-JSON [id, gid, w, t, at, pulled], sorted by gid         *)
(***************************************************************************)
EXTENDS LR1, Json, IOUtils

GSeq == ndJsonDeserialize(IOEnv.GRAMMARS)
Obs == ndJsonDeserialize(IOEnv.OBS)
GrammarById(id) == LET r == CHOOSE x \in SeqRange(GSeq) : x.id = id IN
   [nts |-> SeqRange(r.nts), ts |-> SeqRange(r.ts), start |-> r.start, rules |-> r.rules]

VARIABLES l, jg, jtab, jgid
jvars == <<l, jg, jtab, jgid>>
Init == l = 1 /\ jg = <<>> /\ jtab = <<>> /\ jgid = -1

JudgeRec(G, tab, r) ==
  LET exp == IF tab.cf THEN RunTab(G, tab, <<tab.start>>, <<>>, r.w, 1) ELSE [t |-> "none", at |-> 0, tree |-> Leaf("", 0)]
      expPulled == IF exp.t = "err" THEN exp.at ELSE Len(r.w) + 1
      why == IF ~tab.cf THEN "C04: generate accepted a grammar that is not LALR(1)"
             ELSE IF r.t = "panic" THEN "C01: the emitted parser panicked"
             ELSE IF (r.t = "acc") # (exp.t = "acc") THEN "C01: accepts a non-sentence or rejects a sentence"
             ELSE IF r.t # exp.t \/ r.at # exp.at THEN "C03: wrong error report (kind or offending token)"
             ELSE IF r.pulled # expPulled THEN "C03: pulled a different number of items than the reported token requires"
             ELSE ""
  IN [id |-> r.id, ok |-> (why = ""), why |-> why, expect |-> [t |-> exp.t, at |-> exp.at, pulled |-> expPulled],
      tree |-> exp.tree]   \* the derivation tree of an accepted input: compared with the value the real parser returned (C02)

Next ==
  /\ l <= Len(Obs)
  /\ LET r == Obs[l] IN
       IF r.gid = jgid
       THEN /\ PrintT(<<"DJUDGE", ToJson(JudgeRec(jg, jtab, r))>>) /\ UNCHANGED <<jg, jtab, jgid>>
       ELSE /\ jg' = GrammarById(r.gid) /\ jtab' = DTables(Ctx(jg')) /\ jgid' = r.gid
            /\ PrintT(<<"DJUDGE", ToJson(JudgeRec(jg', jtab', r))>>)
  /\ l' = l + 1
Done == TLCGet("stats").diameter - 1 = Len(Obs)
=============================================================================
