--------------------------- MODULE ClosureTrace ---------------------------
(***************************************************************************)
(* Trace validation of the closure loop: the events recorded by the        *)
(* feature-guarded hook in ImmutContext::get_closure must be explained,    *)
(* line by line, by the actions of Closure.tla in their first-in first-out *)
(* form.  The trace file (environment variable TRACE, ND-JSON) holds many  *)
(* grammars one after the other, each followed by all its closure calls:   *)
(*   grammar  g                    reset; cctx = Ctx(g)                    *)
(*   cstart   kernel: [item]       a get_closure call; queue = kernel      *)
(*   cskip    item                 Closure!Skip(1), the front item is item *)
(*   cexpand  item pushed: [item]  Closure!Expand(1, pushed); pushed must  *)
(*                                 list exactly Implied(item), no repeats  *)
(*   cend     items: [item]        Closure!CFinish; items = what the loop  *)
(*                                 built = LR1!Closure(kernel)             *)
(* An item is [r, d, la] with r = 0 for the augmented rule.                *)
(***************************************************************************)
EXTENDS Closure, Json, IOUtils

Rec == ndJsonDeserialize(IOEnv.TRACE)
VARIABLE l
allvars == <<cvars, l>>

ItemOfT(t) == Item(t[1], t[2], t[3])
ItemsOfT(s) == [k \in DOMAIN s |-> ItemOfT(s[k])]
GrammarOfT(r) == [nts |-> SeqRange(r.nts), ts |-> SeqRange(r.ts), start |-> r.start, rules |-> r.rules]
IsEvent(e) == l <= Len(Rec) /\ Rec[l].ev = e /\ l' = l + 1

NoG == [nts |-> {}, ts |-> {}, start |-> "", rules |-> <<>>]
TInit == /\ l = 1 /\ cg = NoG /\ cctx = [G |-> NoG, F |-> <<>>, NL |-> {}]
         /\ ckernel = {} /\ cqueue = <<>> /\ citems = {} /\ cpops = 0 /\ cdone = TRUE /\ cwant = {}

TGrammar ==
  /\ IsEvent("grammar")
  /\ cg' = GrammarOfT(Rec[l].g) /\ cctx' = Ctx(cg')
  /\ ckernel' = {} /\ cqueue' = <<>> /\ citems' = {} /\ cpops' = 0 /\ cdone' = TRUE /\ cwant' = {}

\* a call may only start when the previous one has returned
TStart ==
  /\ IsEvent("cstart") /\ cdone
  /\ cqueue' = ItemsOfT(Rec[l].kernel)
  /\ ckernel' = SeqRange(cqueue')
  /\ citems' = {} /\ cpops' = 0 /\ cdone' = FALSE
  /\ cwant' = Closure(cctx, ckernel')
  /\ UNCHANGED <<cg, cctx>>

TSkip ==
  /\ IsEvent("cskip")
  /\ cqueue # <<>> /\ cqueue[1] = ItemOfT(Rec[l].item)
  /\ Skip(1)

TExpand ==
  /\ IsEvent("cexpand")
  /\ cqueue # <<>> /\ cqueue[1] = ItemOfT(Rec[l].item)
  /\ LET pushed == ItemsOfT(Rec[l].pushed)
     IN /\ IsListingOf(pushed, Implied(cctx, cqueue[1]))
        /\ Expand(1, pushed)

TEnd ==
  /\ IsEvent("cend")
  /\ CFinish
  /\ citems = SeqRange(ItemsOfT(Rec[l].items))
  /\ citems = cwant

TNext == TGrammar \/ TStart \/ TSkip \/ TExpand \/ TEnd
TSpec == TInit /\ [][TNext]_allvars

\* the design-level invariants hold in every state of the real execution
TInv == cdone \/ (CSound /\ CLoopInv /\ CBounded)

Accepted ==
  IF TLCGet("stats").diameter = Len(Rec) + 1 THEN PrintT(<<"TRACE-ACCEPTED", Len(Rec)>>)
  ELSE PrintT(<<"TRACE-REJECTED", TLCGet("stats").diameter, ToJson(Rec[TLCGet("stats").diameter])>>) /\ FALSE
=============================================================================
