----------------------------- MODULE MC_Union -----------------------------
(* Union.tla on pairs of grammars: every ordered pair of a seeded slice of the universe (environment UNIVERSE, SLICE =
   number of grammars taken) and of the small classics; every input of at most MAXLEN tokens over ALL terminals of the
   union after either lead terminal; plus the degenerate inputs. *)
EXTENDS Union, Universe, Classics, IOUtils, TLC
MaxLen == atoi(IOEnv.MAXLEN)
Slice == atoi(IOEnv.SLICE)
UPick == CASE IOEnv.UNIVERSE = "U1" -> U1 [] IOEnv.UNIVERSE = "U2" -> U2
RECURSIVE TakeN(_, _)
TakeN(S, n) == IF n = 0 \/ S = {} THEN {} ELSE LET x == CHOOSE y \in S : TRUE IN {x} \cup TakeN(S \ {x}, n - 1)
\* a spread-out slice: every (|U| \div Slice)-th grammar in TLC's enumeration order would need an order; CHOOSE-based
\* taking is deterministic and good enough for a theorem that does not depend on the grammar's shape
Pool == TakeN(UPick, Slice) \cup { c.g : c \in { d \in Classics : Len(d.g.rules) <= 3 } }
VARIABLES ga, gb, picked
NoG == [nts |-> {"S"}, ts |-> {}, start |-> "S", rules |-> <<>>]
\* the second component is picked by a step, not in Init: TLC evaluates the invariants of initial states on one thread
\* only, whereas the initial states (one per first component) are spread over the workers
Init == ga \in Pool /\ gb = NoG /\ picked = FALSE
Next == ~picked /\ gb' \in Pool /\ picked' = TRUE /\ UNCHANGED ga
Words(T, n) == UNION { [1..k -> T] : k \in 0..n }
Holds == ~picked \/
  LET A == Renamed(ga, "_a") B == Renamed(gb, "_b")
      UG == Union2(A, "$La", B, "$Lb")
      W == Words(UG.ts, MaxLen)
      CA == Ctx(A) CB == Ctx(B) CU == Ctx(UG)
  IN \* a component whose start symbol derives no sentence makes its own lead terminal the first offending token (nothing
     \* continues it); the shift-by-one law is for components with a non-empty language, which is what the driver composes
     /\ A.start \in Productive(A) => \A w \in W : UnionOutcome(UG, A, "$La", w)
     /\ B.start \in Productive(B) => \A w \in W : UnionOutcome(UG, B, "$Lb", w)
     /\ A.start \notin Productive(A) => RefOutcome(UG, <<"$La">>) = [t |-> "err", at |-> 1]
     /\ (A.start \in Productive(A) \/ B.start \in Productive(B)) => RefOutcome(UG, <<>>) = [t |-> "eof", at |-> 1]
     /\ \A t \in A.ts \cup B.ts : RefOutcome(UG, <<t>>) = [t |-> "err", at |-> 1]
     /\ ConflictFree(CU) = (ConflictFree(CA) /\ ConflictFree(CB))
=============================================================================
