-------------------------------- MODULE Ast --------------------------------
(***************************************************************************)
(* What a Kiki file DECLARES: from a derivation tree of the token sequence *)
(* under the grammar of record (KikiSyntax!KikiG) and the lexemes of the   *)
(* tokens, the abstract file - the items in order, each struct / enum /    *)
(* terminal declaration with its attributes, name and fieldsets - and from *)
(* that the grammar the rest of the pipeline works on (one production per  *)
(* struct and per enum variant, in declaration order).                     *)
(*                                                                         *)
(* This is the specification of the stage cst_to_ast.rs (left-recursive    *)
(* list nodes become sequences in source order, wrapper nodes disappear)   *)
(* and of the projection validated_file::File::get_rules.  Every node kind *)
(* is identified by the left-hand side of its rule and the shape of its    *)
(* right-hand side, not by rule numbers, so the definitions survive a      *)
(* reordering of KikiSyntax.                                               *)
(*                                                                         *)
(* tx is the sequence of lexemes: tx[p] is the source text of token p      *)
(* (identifiers, `$`-prefixed terminal identifiers, whole attributes; the  *)
(* fixed spelling for punctuation and keywords).                           *)
(***************************************************************************)
EXTENDS KikiSyntax, Cfg

LhsOf(t) == KikiG.rules[t.rule].lhs
RhsOf(t) == KikiG.rules[t.rule].rhs
Kid(t, k) == t.kids[k]
LastKid(t) == t.kids[Len(t.kids)]
Text(tx, leaf) == tx[leaf.pos]

\* a left-recursive list node  L -> (empty) | X | L X | L sep X  as the sequence of its X subtrees, in source order
RECURSIVE ListOf(_)
ListOf(t) ==
  IF t.kids = <<>> THEN <<>>
  ELSE IF RhsOf(t)[1] = LhsOf(t) THEN Append(ListOf(Kid(t, 1)), LastKid(t))
  ELSE << LastKid(t) >>

\* IdentOrUnderscore / IdentOrTerminalIdent / a bare token: the lexeme of the single leaf below
RECURSIVE Lexeme(_, _)
Lexeme(tx, t) == IF t.leaf THEN Text(tx, t) ELSE Lexeme(tx, Kid(t, 1))

\* a payload type as the sequence of its lexemes (C13 compares token sequences)
RECURSIVE LeafTexts(_, _)
LeafTexts(tx, t) ==
  IF t.leaf THEN << Text(tx, t) >>
  ELSE IF t.kids = <<>> THEN <<>>
  ELSE LET RECURSIVE Cat(_)
           Cat(k) == IF k > Len(t.kids) THEN <<>> ELSE LeafTexts(tx, Kid(t, k)) \o Cat(k + 1)
       IN Cat(1)

NoField == [fname |-> "", sym |-> ""]
\* NamedField -> IdentOrUnderscore : IdentOrTerminalIdent ; TupleField -> IdentOrTerminalIdent | _ : IdentOrTerminalIdent
FieldOf(tx, t) ==
  IF LhsOf(t) = "NamedField" THEN [fname |-> Lexeme(tx, Kid(t, 1)), sym |-> Lexeme(tx, Kid(t, 3))]
  ELSE IF Len(t.kids) = 1 THEN [fname |-> "", sym |-> Lexeme(tx, Kid(t, 1))]
  ELSE [fname |-> "_", sym |-> Lexeme(tx, Kid(t, 3))]

EmptyFieldset == [style |-> "empty", fields |-> <<>>]
\* Fieldset -> (empty) | NamedFieldset | TupleFieldset ; the wrapped node is  open List close
FieldsetOf(tx, t) ==
  IF t.kids = <<>> THEN EmptyFieldset
  ELSE LET w == Kid(t, 1)
           fs == ListOf(Kid(w, 2))
       IN [style |-> IF LhsOf(w) = "NamedFieldset" THEN "named" ELSE "tuple",
           fields |-> [k \in DOMAIN fs |-> FieldOf(tx, fs[k])]]

AttrsOf(tx, t) == LET as == ListOf(t) IN [k \in DOMAIN as |-> Text(tx, as[k])]

\* one record shape for all four item kinds (TLC cannot compare records with different fields)
Decl(k, attrs, name, fs, vars, tvars) == [k |-> k, attrs |-> attrs, name |-> name, fs |-> fs, vars |-> vars, tvars |-> tvars]
ItemOf(tx, t) ==       \* t is a FileItem node
  IF Len(t.kids) = 2 THEN Decl("start", <<>>, Text(tx, Kid(t, 2)), EmptyFieldset, <<>>, <<>>)
  ELSE LET d == Kid(t, 1) IN
       CASE LhsOf(d) = "Struct" -> Decl("struct", AttrsOf(tx, Kid(d, 1)), Text(tx, Kid(d, 3)), FieldsetOf(tx, Kid(d, 4)), <<>>, <<>>)
         [] LhsOf(d) = "Enum" ->
              LET vs == ListOf(Kid(d, 5))
              IN Decl("enum", AttrsOf(tx, Kid(d, 1)), Text(tx, Kid(d, 3)), EmptyFieldset,
                      [k \in DOMAIN vs |-> [name |-> Text(tx, Kid(vs[k], 1)), fs |-> FieldsetOf(tx, Kid(vs[k], 2))]], <<>>)
         [] LhsOf(d) = "TerminalEnum" ->
              LET vs == ListOf(Kid(d, 5))
              IN Decl("terminal", AttrsOf(tx, Kid(d, 1)), Text(tx, Kid(d, 3)), EmptyFieldset, <<>>,
                      [k \in DOMAIN vs |-> [name |-> Text(tx, Kid(vs[k], 1)), ty |-> LeafTexts(tx, Kid(vs[k], 3))]])

\* File -> OptItems
FileOf(tx, t) == LET is == ListOf(Kid(t, 1)) IN [k \in DOMAIN is |-> ItemOf(tx, is[k])]

(* ---- the grammar a (well-formed) abstract file declares ---- *)
Starts(f) == SelectSeq(f, LAMBDA it : it.k = "start")
TEnums(f) == SelectSeq(f, LAMBDA it : it.k = "terminal")
Nonterminals(f) == SelectSeq(f, LAMBDA it : it.k \in {"struct", "enum"})

Production(lhs, ctor, vname, attrs, fs) ==
  [lhs |-> lhs, ctor |-> ctor, vname |-> vname, attrs |-> attrs, style |-> fs.style,
   rhs |-> [k \in DOMAIN fs.fields |-> fs.fields[k].sym],
   mask |-> [k \in DOMAIN fs.fields |-> fs.fields[k].fname # "_"],
   fnames |-> [k \in DOMAIN fs.fields |-> IF fs.fields[k].fname = "_" THEN "" ELSE fs.fields[k].fname]]
ProductionsOfItem(it) ==
  IF it.k = "struct" THEN << Production(it.name, "struct", "", it.attrs, it.fs) >>
  ELSE [k \in DOMAIN it.vars |-> Production(it.name, "variant", it.vars[k].name, it.attrs, it.vars[k].fs)]
RECURSIVE Flat(_)
Flat(ss) == IF ss = <<>> THEN <<>> ELSE Head(ss) \o Flat(Tail(ss))

\* defined for files with exactly one start and one terminal declaration (C10 decides which files those are)
Declared(f) ==
  LET ns == Nonterminals(f) te == TEnums(f)[1] IN
  [start |-> Starts(f)[1].name,
   tenum |-> te.name, tattrs |-> te.attrs,
   ts |-> [k \in DOMAIN te.tvars |-> te.tvars[k].name],
   ttypes |-> [k \in DOMAIN te.tvars |-> te.tvars[k].ty],
   nts |-> [k \in DOMAIN ns |-> ns[k].name],
   rules |-> Flat([k \in DOMAIN ns |-> ProductionsOfItem(ns[k])])]

(* ---- laws (checked on the explored files by MC_Ast / on every judged file by AstJudge) ---- *)
\* nothing is lost, duplicated or reordered: the identifiers, terminal identifiers and attributes of the abstract file,
\* read in order, are exactly those lexemes of the token sequence
FieldTexts(fs) == Flat([k \in DOMAIN fs.fields |->
                          (IF fs.fields[k].fname \in {"", "_"} THEN <<>> ELSE << fs.fields[k].fname >>) \o << fs.fields[k].sym >>])
ItemTexts(it) ==
  it.attrs \o << it.name >>
  \o (IF it.k = "struct" THEN FieldTexts(it.fs) ELSE <<>>)
  \o Flat([k \in DOMAIN it.vars |-> << it.vars[k].name >> \o FieldTexts(it.vars[k].fs)])
  \o Flat([k \in DOMAIN it.tvars |-> << it.tvars[k].name >> \o
            SelectSeq(it.tvars[k].ty, LAMBDA s : s \notin {"(", ")", "::", "<", ">", ","})])
FileTexts(f) == Flat([k \in DOMAIN f |-> ItemTexts(f[k])])
NamedLexemes(kinds, tx) == LET idx == SelectSeq([k \in DOMAIN kinds |-> k], LAMBDA k : kinds[k] \in {"$Ident", "$TerminalIdent", "$OuterAttribute"})
                           IN [j \in DOMAIN idx |-> tx[idx[j]]]
NothingLost(kinds, tx, f) == FileTexts(f) = NamedLexemes(kinds, tx)
=============================================================================
