------------------------------- MODULE Header -------------------------------
(***************************************************************************)
(* The header of emitted files and get_grammar_hash (C15).                 *)
(*                                                                         *)
(* A text is a sequence of lines; a line is drawn from line CLASSES that   *)
(* distinguish everything the scan can look at.  Each class has a concrete *)
(* text (CLASS_TEXT in lib/header.py, the binding to the real function):   *)
(*   "hash"     // @sha256 <v1>               a hash line                  *)
(*   "hash2"    // @sha256 <v2>               another hash line            *)
(*   "dbl"      // @sha256 // @sha256 <v1>    prefix occurs twice: the     *)
(*                                            remainder starts with the    *)
(*                                            second prefix                *)
(*   "bare"     // @sha256<sp>                prefix, empty remainder      *)
(*   "comment"  // plain comment                                           *)
(*   "slashes"  //                                                         *)
(*   "doc"      /// @sha256 <v1>              starts with // but not with  *)
(*                                            the prefix                   *)
(*   "nospace"  // @sha256<v1>                no space after the tag       *)
(*   "indent"   <sp><sp>// @sha256 <v1>       does not start with //       *)
(*   "empty"    (empty line)                                               *)
(*   "code"     fn f() {}                                                  *)
(*   "block"    /* banner */                  starts with ONE slash only   *)
(*   "slash1"   /                             a lone slash                 *)
(* Cls gives, per class: does the line start with `//`, does it start with *)
(* the prefix `// @sha256 `, and which remainder it then has.              *)
(***************************************************************************)
EXTENDS Naturals, Sequences, FiniteSets

Classes == {"hash", "hash2", "dbl", "bare", "comment", "slashes", "doc", "nospace", "indent", "empty", "code", "block", "slash1"}
IsComment(c) == c \in {"hash", "hash2", "dbl", "bare", "comment", "slashes", "doc", "nospace"}
HasPrefix(c) == c \in {"hash", "hash2", "dbl", "bare"}
\* the remainder of the line after the prefix, as an abstract value
Remainder(c) == CASE c = "hash" -> "v1" [] c = "hash2" -> "v2" [] c = "dbl" -> "prefix+v1" [] c = "bare" -> "" [] OTHER -> "?"

NoneV == [some |-> FALSE, v |-> ""]
SomeV(v) == [some |-> TRUE, v |-> v]

(***************************************************************************)
(* Declarative: the remainder of the first line starting with the prefix   *)
(* inside the maximal leading block of lines that start with `//`.         *)
(***************************************************************************)
LeadingBlockEnd(text) ==   \* number of lines in the leading comment block
  IF \A i \in DOMAIN text : IsComment(text[i]) THEN Len(text)
  ELSE (CHOOSE i \in DOMAIN text : ~IsComment(text[i]) /\ \A j \in 1..(i - 1) : IsComment(text[j])) - 1
RefHash(text) ==
  LET n == LeadingBlockEnd(text)
      hs == { i \in 1..n : HasPrefix(text[i]) }
  IN IF hs = {} THEN NoneV ELSE SomeV(Remainder(text[CHOOSE i \in hs : \A j \in hs : i <= j]))

(***************************************************************************)
(* Operational: get_grammar_hash as the line-by-line loop it is.           *)
(***************************************************************************)
VARIABLES htext,   \* the text being scanned
          hpos,    \* index of the next line
          hres     \* "scanning" | NoneV | SomeV(v)
hvars == <<htext, hpos, hres>>
Scanning == [some |-> FALSE, v |-> "scanning"]
HInit(T) == htext \in T /\ hpos = 1 /\ hres = Scanning
ScanLine ==
  /\ hres = Scanning /\ hpos <= Len(htext)
  /\ LET c == htext[hpos] IN
       hres' = IF ~IsComment(c) THEN NoneV             \* `if !line.starts_with("//") { return None; }`
               ELSE IF HasPrefix(c) THEN SomeV(Remainder(c))
               ELSE Scanning
  /\ hpos' = hpos + 1 /\ UNCHANGED htext
ScanEnd ==
  /\ hres = Scanning /\ hpos > Len(htext)
  /\ hres' = NoneV /\ UNCHANGED <<htext, hpos>>
HNext == ScanLine \/ ScanEnd
ScanRight == hres # Scanning => hres = RefHash(htext)

(***************************************************************************)
(* The emitted header and the build-script freshness protocol.  A grammar  *)
(* source is an abstract value; Digest is injective (the collision         *)
(* resistance of SHA-256 is an assumption).  Emitted(s) is the line        *)
(* sequence table_to_rust writes for source s: five comment lines, the     *)
(* hash line, then an empty line and code.                                 *)
(***************************************************************************)
EmittedClasses == <<"comment", "comment", "comment", "slashes", "comment", "hash", "empty", "comment", "code">>
\* RefHash(EmittedClasses) is the hash line's remainder, i.e. the digest that was written
EmittedRoundTrip == RefHash(EmittedClasses) = SomeV("v1")
=============================================================================
