----------------------------- MODULE LexTrace -----------------------------
(***************************************************************************)
(* Trace validation of the real tokenizer (hook in tokenize.rs records the *)
(* tokenizer state BEFORE each consumed char and before the final flush).  *)
(* Every recorded state must be the state Lexer.tla is in at that point -  *)
(* kind, byte offsets, bracket depth, number of emitted tokens - and the   *)
(* value tokenize() returned must be the one the specification computes.   *)
(*   src  id n                         new case                            *)
(*   ch   i c st a b d out             about to consume code point c at    *)
(*                                     byte i in state (st, a, b, d) with  *)
(*                                     `out` tokens emitted; c = NONE:     *)
(*                                     about to run the final flush        *)
(*   end  t i c out                    returned Ok(out) / Err(Lex(i, c))   *)
(***************************************************************************)
EXTENDS Lexer, TLC, Json, IOUtils

Rec == ndJsonDeserialize(IOEnv.TRACE)
VARIABLE l
tvars == <<lvars, l>>

IsEvent(e) == l <= Len(Rec) /\ Rec[l].ev = e /\ l' = l + 1

SameState(r) ==
  /\ lres = RUN
  /\ lst.kind = r.st
  /\ lpos = r.i
  /\ Len(lout) = r.out
  /\ lst.kind \in {"Slash", "Dollar", "Colon", "Pound", "Ident", "TIdent", "Attr"} => lst.a = r.a
  /\ lst.kind \in {"Ident", "TIdent", "Attr"} => lst.b = r.b
  /\ lst.kind = "Attr" => lst.d = r.d

TInit == LInit /\ l = 1 /\ TLCSet(1, 1)
TSrc == /\ IsEvent("src")
        /\ lsrc' = <<>> /\ lpos' = 0 /\ lst' = Main /\ lout' = <<>> /\ lres' = RUN
TCh == /\ IsEvent("ch") /\ Rec[l].c # NONE
       /\ SameState(Rec[l])
       /\ LStep(Rec[l].c)
TBeforeFlush == /\ IsEvent("ch") /\ Rec[l].c = NONE
                /\ SameState(Rec[l])
                /\ UNCHANGED lvars
TEnd == /\ IsEvent("end")
        /\ LET r == Rec[l]
               e == IF lres = RUN THEN AtEnd(lsrc, lpos, lst, lout) ELSE [res |-> lres, out |-> lout]
           IN /\ e.res.t = r.t
              /\ r.t = "err" => (e.res.i = r.i /\ e.res.c = r.c)
              /\ r.t = "ok" => (Len(r.out) = Len(e.out) /\ \A k \in DOMAIN r.out :
                                   r.out[k].k = e.out[k].k /\ r.out[k].s = e.out[k].s /\ r.out[k].l = e.out[k].l)
        /\ UNCHANGED lvars
TNext == TSrc \/ TCh \/ TBeforeFlush \/ TEnd
Track == TLCSet(1, IF TLCGet(1) > l THEN TLCGet(1) ELSE l)
Accepted ==
  IF TLCGet(1) = Len(Rec) + 1 THEN PrintT(<<"TRACE-ACCEPTED", Len(Rec)>>)
  ELSE PrintT(<<"TRACE-REJECTED", TLCGet(1), ToJson(Rec[TLCGet(1)])>>) /\ FALSE
=============================================================================
