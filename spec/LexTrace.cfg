INIT TInit
NEXT TNext
CONSTRAINT Track
POSTCONDITION Accepted
CHECK_DEADLOCK FALSE
