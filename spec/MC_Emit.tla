------------------------------ MODULE MC_Emit ------------------------------
(* Bounded enumeration for Emit.tla (MODE selects the universe):
     shapes : every fieldset pattern with <= 3 fields (ctor x style x used/`_` mask x terminal/nonterminal per field):
              ShapeLaws hold; each pattern is printed with the predicted emitted shape.
     types  : every payload type of depth <= 1 with <= 2 arguments over paths of <= 2 segments, plus 3- and 4-argument lists in
              every order of three leaves and a nested 3-argument application in every position: TypeTokens is injective;
              each type is printed with its token sequence.
     attrs  : declaration lists (struct / enum / terminal) with 0-2 attributes each: the emitter's layout satisfies the
              placement law.
   The printed lines are the replay set for the real generate. *)
EXTENDS Emit, TLC, Json, IOUtils
Mode == IOEnv.MODE

Fld(u, t, n) == [used |-> u, term |-> t, name |-> n]
FieldSeqs == UNION { [1..n -> BOOLEAN \X BOOLEAN] : n \in 1..3 }
\* field names: an ordinary one, one starting with an underscore, one without any letter (all legal Kiki field names;
\* only the bare `_` means "skipped")
MkFields(fs, style) == [k \in DOMAIN fs |-> Fld(fs[k][1], fs[k][2], IF style = "named" THEN (IF fs[k][1] THEN <<"_fa", "fb", "__">>[k] ELSE "_") ELSE "")]
Decls == { [ctor |-> c, style |-> "empty", fields |-> <<>>] : c \in {"struct", "variant"} }
         \cup { [ctor |-> c, style |-> s, fields |-> MkFields(fs, s)] : c \in {"struct", "variant"}, s \in {"named", "tuple"}, fs \in FieldSeqs }

\* "N" is also the name of a nonterminal of the grammars the types are embedded in (lib/paytypes.py): a payload type may
\* legitimately be spelled like a nonterminal; it still denotes the user's own Rust type and must not be treated as one
Idents == {"a9", "B", "N"}
Paths == { <<x>> : x \in Idents } \cup { <<x, y>> : x \in Idents, y \in Idents }
T0 == { [k |-> "unit", path |-> <<>>, args |-> <<>>] } \cup { [k |-> "path", path |-> p, args |-> <<>>] : p \in Paths }
T1a == T0 \cup { [k |-> "app", path |-> p, args |-> a] : p \in Paths, a \in { <<x>> : x \in T0 } \cup { <<x, y>> : x \in T0, y \in T0 } }
\* longer argument lists (3 and 4 arguments, every order of three distinguishable leaves) and a 3-argument application nested
\* as the first, middle or last argument: the order of type arguments is observable only from three arguments on
Leaf3 == { [k |-> "unit", path |-> <<>>, args |-> <<>>], [k |-> "path", path |-> <<"a9">>, args |-> <<>>], [k |-> "path", path |-> <<"B">>, args |-> <<>>] }
Wide == { <<x, y, z>> : x \in Leaf3, y \in Leaf3, z \in Leaf3 } \cup { <<x, y, z, w>> : x \in Leaf3, y \in Leaf3, z \in Leaf3, w \in Leaf3 }
Inner == [k |-> "app", path |-> <<"N">>, args |-> << [k |-> "path", path |-> <<"a9">>, args |-> <<>>], [k |-> "unit", path |-> <<>>, args |-> <<>>],
                                                   [k |-> "path", path |-> <<"B">>, args |-> <<>>] >>]
T2 == { [k |-> "app", path |-> p, args |-> a] : p \in { <<"B">>, <<"a9", "N">> }, a \in Wide }
      \cup { [k |-> "app", path |-> <<"B">>, args |-> a] : a \in { <<Inner, x, y>> : x \in Leaf3, y \in Leaf3 } \cup { <<x, Inner, y>> : x \in Leaf3, y \in Leaf3 }
                                                               \cup { <<x, y, Inner>> : x \in Leaf3, y \in Leaf3 } }
T1 == T1a \cup T2

AttrLists == { <<>>, <<"#[a1]">>, <<"#[a1]", "#[a2]">> }
DeclLists == { << [name |-> "T", attrs |-> a1], [name |-> "A", attrs |-> a2], [name |-> "B", attrs |-> a3] >> : a1 \in AttrLists, a2 \in AttrLists, a3 \in AttrLists }

VARIABLE x
Init == \/ Mode = "shapes" /\ x \in Decls
        \/ Mode = "types" /\ x \in T1
        \/ Mode = "attrs" /\ x \in DeclLists
Next == UNCHANGED x
Laws == CASE Mode = "shapes" -> ShapeLaws(x)
          [] Mode = "types" -> TRUE
          [] Mode = "attrs" -> AttrPlacementOK(x, EmitDecls(x))
PrintCases == CASE Mode = "shapes" -> PrintT(<<"SHAPE", ToJson([decl |-> x, shape |-> Shape(x)])>>)
           [] Mode = "types" -> PrintT(<<"TYPE", ToJson([t |-> x, tokens |-> TypeTokens(x)])>>)
           [] Mode = "attrs" -> PrintT(<<"ATTRS", ToJson([decls |-> x])>>)
ASSUME Mode = "types" => Cardinality({ TypeTokens(t) : t \in T1 }) = Cardinality(T1)
=============================================================================
