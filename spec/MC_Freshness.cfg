CONSTANT Versions = {1, 2, 3}
SPECIFICATION FSpec
INVARIANT NeverStaleAfterBuild
CHECK_DEADLOCK FALSE
