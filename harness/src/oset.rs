//! Replays operation histories on two real `kiki::Oset` values through the public API only.

use kiki::data::machine::{Lookahead, RuleIndex, StateItem};
use kiki::{DollarlessTerminalName, Oset};
use serde_json::{json, Value};
use std::cmp::Ordering;
use std::collections::hash_map::DefaultHasher;
use std::hash::{Hash, Hasher};

use crate::guarded;

/// Element with the reversed order of its id.
#[derive(Debug, Clone, PartialEq, Eq, Hash)]
struct Rev(i64);
impl PartialOrd for Rev {
    fn partial_cmp(&self, o: &Self) -> Option<Ordering> {
        Some(self.cmp(o))
    }
}
impl Ord for Rev {
    fn cmp(&self, o: &Self) -> Ordering {
        o.0.cmp(&self.0)
    }
}

/// Element ordered by parity first, then by value.
#[derive(Debug, Clone, PartialEq, Eq, Hash)]
struct ParityFirst(i64);
impl PartialOrd for ParityFirst {
    fn partial_cmp(&self, o: &Self) -> Option<Ordering> {
        Some(self.cmp(o))
    }
}
impl Ord for ParityFirst {
    fn cmp(&self, o: &Self) -> Ordering {
        (self.0.rem_euclid(2), self.0).cmp(&(o.0.rem_euclid(2), o.0))
    }
}

trait Elem: Ord + Clone + Hash {
    fn of(id: i64) -> Self;
    fn id(&self) -> i64;
}
impl Elem for i64 {
    fn of(id: i64) -> Self {
        id
    }
    fn id(&self) -> i64 {
        *self
    }
}
impl Elem for Rev {
    fn of(id: i64) -> Self {
        Rev(id)
    }
    fn id(&self) -> i64 {
        self.0
    }
}
impl Elem for ParityFirst {
    fn of(id: i64) -> Self {
        ParityFirst(id)
    }
    fn id(&self) -> i64 {
        self.0
    }
}

/// The element type the automaton construction relies on. The id ↦ item table is deliberately
/// *not* monotone, so the order of ids under `StateItem: Ord` is non-trivial; the driver asks
/// for it with an `order` request.
fn item_table() -> Vec<StateItem> {
    let t = |s: &str| Lookahead::Terminal(DollarlessTerminalName::remove_dollars(s));
    let mk = |r: RuleIndex, la: Lookahead, dot: usize| StateItem {
        rule_index: r,
        lookahead: la,
        dot,
    };
    vec![
        mk(RuleIndex::Original(2), t("b"), 1),
        mk(RuleIndex::Augmented, Lookahead::Eof, 0),
        mk(RuleIndex::Original(0), Lookahead::Eof, 2),
        mk(RuleIndex::Original(0), t("a"), 2),
        mk(RuleIndex::Original(2), t("b"), 0),
        mk(RuleIndex::Original(0), t("a"), 0),
        mk(RuleIndex::Augmented, Lookahead::Eof, 1),
        mk(RuleIndex::Original(1), t("B"), 0),
        mk(RuleIndex::Original(1), t("a"), 3),
        mk(RuleIndex::Original(10), t("a"), 0),
        mk(RuleIndex::Original(9), Lookahead::Eof, 0),
        mk(RuleIndex::Original(9), t("Z"), 0),
        mk(RuleIndex::Original(0), t("aa"), 0),
        mk(RuleIndex::Original(0), t("a"), 1),
        mk(RuleIndex::Original(3), Lookahead::Eof, 0),
        mk(RuleIndex::Original(3), Lookahead::Eof, 1),
    ]
}
impl Elem for StateItem {
    fn of(id: i64) -> Self {
        let t = item_table();
        t[(id as usize) % t.len()].clone()
    }
    fn id(&self) -> i64 {
        item_table().iter().position(|x| x == self).unwrap() as i64
    }
}

fn h<T: Hash>(x: &T) -> u64 {
    let mut s = DefaultHasher::new();
    x.hash(&mut s);
    s.finish()
}

fn ord(o: Ordering) -> i64 {
    match o {
        Ordering::Less => -1,
        Ordering::Equal => 0,
        Ordering::Greater => 1,
    }
}

fn args<T: Elem>(v: &Value) -> Vec<T> {
    v.as_array()
        .map(|a| a.iter().map(|x| T::of(x.as_i64().unwrap())).collect())
        .unwrap_or_default()
}

fn observe<T: Elem>(a: &Oset<T>, b: &Oset<T>, n: i64) -> Value {
    let raw = |s: &Oset<T>| s.iter().map(|x| x.id()).collect::<Vec<_>>(); // Deref<[T]>
    let by_ref = |s: &Oset<T>| s.into_iter().map(|x| x.id()).collect::<Vec<_>>(); // &Oset: IntoIterator
    let owned = |s: &Oset<T>| s.clone().into_iter().map(|x| x.id()).collect::<Vec<_>>(); // Oset: IntoIterator
    let contains = |s: &Oset<T>| (0..n).map(|k| s.contains(&T::of(k))).collect::<Vec<_>>();
    json!({
        "a": raw(a), "b": raw(b),
        "a_ref": by_ref(a), "b_ref": by_ref(b),
        "a_own": owned(a), "b_own": owned(b),
        "len_a": a.len(), "len_b": b.len(),
        "ca": contains(a), "cb": contains(b),
        "eq": a == b,
        "cmp": ord(a.cmp(b)),
        "pcmp": a.partial_cmp(b).map(ord),
        "heq": h(a) == h(b),
    })
}

fn run<T: Elem>(req: &Value) -> Value {
    let n = req["n"].as_i64().unwrap_or(4);
    let mut a: Oset<T> = Oset::new();
    let mut b: Oset<T> = Oset::default();
    let mut steps = vec![];
    for op in req["ops"].as_array().cloned().unwrap_or_default() {
        let which = op["w"].as_str().unwrap_or("a");
        let tgt = if which == "a" { &mut a } else { &mut b };
        match op["op"].as_str().unwrap_or("") {
            "from_iter" => *tgt = args::<T>(&op["args"]).into_iter().collect(),
            "insert" => {
                for x in args::<T>(&op["args"]) {
                    tgt.insert(x);
                }
            }
            "extend" => tgt.extend(args::<T>(&op["args"])),
            other => return json!({"id": req["id"], "tool_error": format!("bad op {other}")}),
        }
        steps.push(observe(&a, &b, n));
    }
    json!({"id": req["id"], "steps": steps})
}

fn order<T: Elem>(n: i64) -> Vec<i64> {
    let mut v: Vec<T> = (0..n).map(T::of).collect();
    v.sort();
    v.iter().map(|x| x.id()).collect()
}

pub fn handle(req: &Value) -> Value {
    let ty = req["ty"].as_str().unwrap_or("int").to_string();
    if let Some(n) = req["order"].as_i64() {
        let o = match ty.as_str() {
            "int" => order::<i64>(n),
            "rev" => order::<Rev>(n),
            "parity" => order::<ParityFirst>(n),
            "item" => order::<StateItem>(n),
            _ => vec![],
        };
        return json!({"id": req["id"], "order": o});
    }
    let r = guarded(|| match ty.as_str() {
        "int" => run::<i64>(req),
        "rev" => run::<Rev>(req),
        "parity" => run::<ParityFirst>(req),
        "item" => run::<StateItem>(req),
        _ => json!({"id": req["id"], "tool_error": "bad ty"}),
    });
    match r {
        Ok(v) => v,
        Err((msg, loc)) => json!({"id": req["id"], "panic": {"msg": msg, "loc": loc}}),
    }
}
