//! Conversions from kiki's data types to the JSON vocabulary shared with the TLA+ specs
//! (DESIGN.md Appendix A). Terminals are written with a leading `$`, end of input is `"$"`,
//! rule 0 is the augmented rule and user rules are numbered from 1.

use kiki::data::ast::{Fieldset, IdentOrTerminalIdent, IdentOrUnderscore, TupleField};
use kiki::data::machine::{Lookahead, Machine, RuleIndex, StateItem};
use kiki::data::table::{Action, Goto, Table};
use kiki::data::validated_file as vf;
use kiki::verif::{Event, Token};
use kiki::{KikiErr, Symbol};
use serde_json::{json, Value};

pub fn sym(s: &Symbol) -> String {
    match s {
        Symbol::Terminal(t) => format!("${}", t.raw()),
        Symbol::Nonterminal(n) => n.clone(),
    }
}

fn ident_sym(s: &IdentOrTerminalIdent) -> String {
    match s {
        IdentOrTerminalIdent::Ident(i) => i.name.clone(),
        IdentOrTerminalIdent::Terminal(t) => format!("${}", t.name.raw()),
    }
}

pub fn item(it: &StateItem) -> Value {
    let r = match it.rule_index {
        RuleIndex::Augmented => 0,
        RuleIndex::Original(i) => i + 1,
    };
    let la = match &it.lookahead {
        Lookahead::Eof => "$".to_string(),
        Lookahead::Terminal(t) => format!("${}", t.raw()),
    };
    json!([r, it.dot, la])
}

pub fn machine(m: &Machine) -> Value {
    json!({
        "start": m.start.0,
        "states": m.states.iter().map(|s| s.items.iter().map(item).collect::<Vec<_>>()).collect::<Vec<_>>(),
        "trans": m.transitions.iter().map(|t| json!([t.from.0, sym(&t.symbol), t.to.0])).collect::<Vec<_>>(),
    })
}

pub fn action(a: &Action) -> Value {
    match a {
        Action::Shift(s) => json!(["s", s.0]),
        Action::Reduce(r) => json!(["r", r + 1]),
        Action::Accept => json!(["a", 0]),
        Action::Err => json!(["e", 0]),
    }
}

pub fn table(t: &Table) -> Value {
    let nt = t.terminals.len() + 1;
    let nn = t.nonterminals.len();
    let n = t.state_count();
    let mut act = vec![];
    let mut gt = vec![];
    for s in 0..n {
        act.push(
            (0..nt)
                .map(|k| action(&t.actions[s * nt + k]))
                .collect::<Vec<_>>(),
        );
        gt.push(
            (0..nn)
                .map(|k| match t.gotos[s * nn + k] {
                    Goto::State(x) => json!(x.0),
                    Goto::Err => Value::Null,
                })
                .collect::<Vec<_>>(),
        );
    }
    json!({
        "start": t.start.0,
        "ts": t.terminals.iter().map(|x| format!("${}", x.raw())).collect::<Vec<_>>(),
        "nts": t.nonterminals,
        "action": act,
        "goto": gt,
    })
}

fn fieldset(fs: &Fieldset) -> (Vec<String>, Vec<bool>, &'static str, Vec<Option<String>>) {
    match fs {
        Fieldset::Empty => (vec![], vec![], "empty", vec![]),
        Fieldset::Named(n) => (
            n.fields.iter().map(|f| ident_sym(&f.symbol)).collect(),
            // decided from the declaration itself (a name other than the bare `_`), not through kiki's own helper
            n.fields
                .iter()
                .map(|f| matches!(f.name, IdentOrUnderscore::Ident(_)))
                .collect(),
            "named",
            n.fields
                .iter()
                .map(|f| match &f.name {
                    IdentOrUnderscore::Ident(i) => Some(i.name.clone()),
                    IdentOrUnderscore::Underscore(_) => None,
                })
                .collect(),
        ),
        Fieldset::Tuple(t) => (
            t.fields.iter().map(|f| ident_sym(f.symbol())).collect(),
            t.fields
                .iter()
                .map(|f| matches!(f, TupleField::Used(_)))
                .collect(),
            "tuple",
            t.fields.iter().map(|_| None).collect(),
        ),
    }
}

/// The validated file as a grammar: nonterminals and terminals in declaration order,
/// one rule per struct / enum variant in declaration order.
pub fn grammar(f: &vf::File) -> Value {
    let mut rules = vec![];
    let mut nts = vec![];
    for n in &f.nonterminals {
        nts.push(n.name().to_string());
        match n {
            vf::Nonterminal::Struct(s) => {
                let (rhs, mask, style, names) = fieldset(&s.fieldset);
                rules.push(json!({"lhs": s.name.name, "rhs": rhs, "mask": mask, "style": style,
                    "ctor": "struct", "vname": Value::Null, "fnames": names,
                    "attrs": s.attributes.iter().map(|a| a.src.clone()).collect::<Vec<_>>()}));
            }
            vf::Nonterminal::Enum(e) => {
                for v in &e.variants {
                    let (rhs, mask, style, names) = fieldset(&v.fieldset);
                    rules.push(json!({"lhs": e.name.name, "rhs": rhs, "mask": mask, "style": style,
                        "ctor": "variant", "vname": v.name.name, "fnames": names,
                        "attrs": e.attributes.iter().map(|a| a.src.clone()).collect::<Vec<_>>()}));
                }
            }
        }
    }
    json!({
        "start": f.start,
        "tenum": f.terminal_enum.name,
        "tattrs": f.terminal_enum.attributes.iter().map(|a| a.src.clone()).collect::<Vec<_>>(),
        "ts": f.terminal_enum.variants.iter().map(|v| format!("${}", v.dollarless_name.raw())).collect::<Vec<_>>(),
        "ttypes": f.terminal_enum.variants.iter().map(|v| v.type_.clone()).collect::<Vec<_>>(),
        "nts": nts,
        "rules": rules,
    })
}

pub fn token(t: &Token) -> Value {
    let (k, s, l): (&str, usize, usize) = match t {
        Token::Underscore(p) => ("Underscore", p.0, 1),
        Token::Ident(i) => ("Ident", i.position.0, i.name.len()),
        Token::TerminalIdent(i) => (
            "TerminalIdent",
            i.dollarless_position.0.wrapping_sub(1),
            i.name.raw().len() + 1,
        ),
        Token::OuterAttribute(a) => ("OuterAttribute", a.position.0, a.src.len()),
        Token::StartKw(p) => ("StartKw", p.0, 5),
        Token::StructKw(p) => ("StructKw", p.0, 6),
        Token::EnumKw(p) => ("EnumKw", p.0, 4),
        Token::TerminalKw(p) => ("TerminalKw", p.0, 8),
        Token::Colon(p) => ("Colon", p.0, 1),
        Token::DoubleColon(p) => ("DoubleColon", p.0, 2),
        Token::Comma(p) => ("Comma", p.0, 1),
        Token::LParen(p) => ("LParen", p.0, 1),
        Token::RParen(p) => ("RParen", p.0, 1),
        Token::LCurly(p) => ("LCurly", p.0, 1),
        Token::RCurly(p) => ("RCurly", p.0, 1),
        Token::LAngle(p) => ("LAngle", p.0, 1),
        Token::RAngle(p) => ("RAngle", p.0, 1),
    };
    let text: Option<String> = match t {
        Token::Ident(i) => Some(i.name.clone()),
        Token::TerminalIdent(i) => Some(format!("${}", i.name.raw())),
        Token::OuterAttribute(a) => Some(a.src.clone()),
        _ => None,
    };
    json!({"k": k, "s": s, "l": l, "text": text})
}

pub const NONE_CP: u32 = 1114112;

pub fn err(e: &KikiErr) -> Value {
    match e {
        KikiErr::Lex(i, c) => {
            json!({"v": "Lex", "i": i.0, "c": c.map(|c| c as u32).unwrap_or(NONE_CP)})
        }
        KikiErr::Parse(s, text, e) => json!({"v": "Parse", "start": s.0, "text": text, "end": e.0}),
        KikiErr::NoStartSymbol => json!({"v": "NoStartSymbol"}),
        KikiErr::MultipleStartSymbols(ps) => {
            json!({"v": "MultipleStartSymbols", "pos": ps.iter().map(|p| p.0).collect::<Vec<_>>()})
        }
        KikiErr::NoTerminalEnum => json!({"v": "NoTerminalEnum"}),
        KikiErr::MultipleTerminalEnums(ps) => {
            json!({"v": "MultipleTerminalEnums", "pos": ps.iter().map(|p| p.0).collect::<Vec<_>>()})
        }
        KikiErr::SymbolOrTerminalEnumNameFirstLetterNotUppercase(p) => {
            json!({"v": "NotUppercase", "pos": [p.0]})
        }
        KikiErr::FieldFirstLetterNotLowercase(p) => json!({"v": "NotLowercase", "pos": [p.0]}),
        KikiErr::NameClash(n, a, b) => json!({"v": "NameClash", "name": n, "pos": [a.0, b.0]}),
        KikiErr::NonterminalEnumVariantNameClash(n, a, b) => {
            json!({"v": "VariantNameClash", "name": n, "pos": [a.0, b.0]})
        }
        KikiErr::NonterminalEnumVariantSymbolSequenceClash(s, a, b) => {
            json!({"v": "VariantSeqClash", "symbols": s.iter().map(sym).collect::<Vec<_>>(), "pos": [a.0, b.0]})
        }
        KikiErr::UndefinedNonterminal(n, p) => {
            json!({"v": "UndefinedNonterminal", "name": n, "pos": [p.0]})
        }
        KikiErr::UndefinedTerminal(n, p) => {
            json!({"v": "UndefinedTerminal", "name": n.raw(), "pos": [p.0]})
        }
        KikiErr::TableConflict(c) => json!({
            "v": "TableConflict",
            "state": c.state_index.0,
            "items": [item(&c.items.0), item(&c.items.1)],
            "machine": machine(&c.machine),
            "file": grammar(&c.file),
        }),
    }
}

pub fn event(e: &Event) -> Value {
    match e {
        Event::LexStep {
            index,
            c,
            state,
            out_len,
        } => json!({"ev": "ch", "i": index, "c": c.map(|c| c as u32).unwrap_or(NONE_CP),
            "st": state.0, "a": state.1, "b": state.2, "d": state.3, "out": out_len}),
        Event::FirstPass { changed, sets } => json!({"ev": "first_pass", "changed": changed, "sets": sets.iter().map(|(n, ts, eps)|
            json!({"n": n, "ts": ts.iter().map(|t| format!("${t}")).collect::<Vec<_>>(), "eps": eps})).collect::<Vec<_>>()}),
        Event::FirstSets(sets) => json!({"ev": "first", "sets": sets.iter().map(|(n, ts, eps)|
            json!({"n": n, "ts": ts.iter().map(|t| format!("${t}")).collect::<Vec<_>>(), "eps": eps})).collect::<Vec<_>>()}),
        Event::BuilderPop(i) => json!({"ev": "pop", "i": i}),
        Event::BuilderTarget {
            from,
            symbol,
            to,
            is_new,
            grew,
            items_after,
        } => json!({"ev": "target", "from": from, "sym": sym(symbol), "to": to, "new": is_new, "grew": grew,
            "items": items_after.iter().map(item).collect::<Vec<_>>()}),
        Event::ScanItem { state, item: it } => json!({"ev": "scan", "state": state, "item": item(it)}),
        Event::SetAction {
            state,
            quasiterminal,
            action: a,
            outcome,
        } => json!({"ev": "set_action", "state": state,
            "qt": quasiterminal.as_ref().map(|t| format!("${t}")).unwrap_or_else(|| "$".to_string()),
            "act": action(a), "outcome": outcome}),
        Event::FillOrder(cells) => json!({"ev": "fill_order", "cells": cells.iter().map(|(s, q)|
            json!([s, q.as_ref().map(|t| format!("${t}")).unwrap_or_else(|| "$".to_string())])).collect::<Vec<_>>()}),
        Event::GotoFillOrder(cells) => {
            json!({"ev": "goto_fill_order", "cells": cells.iter().map(|(s, n)| json!([s, n])).collect::<Vec<_>>()})
        }
        Event::FreshNames(names) => json!({"ev": "names", "chosen": names}),
        Event::Closure { kind, item: it, items } => match *kind {
            "start" => json!({"ev": "cstart", "kernel": items.iter().map(item).collect::<Vec<_>>()}),
            "skip" => json!({"ev": "cskip", "item": it.as_ref().map(item)}),
            "expand" => json!({"ev": "cexpand", "item": it.as_ref().map(item), "pushed": items.iter().map(item).collect::<Vec<_>>()}),
            _ => json!({"ev": "cend", "items": items.iter().map(item).collect::<Vec<_>>()}),
        },
        #[allow(unreachable_patterns)]
        _ => json!({"ev": "unknown"}),
    }
}
