//! `kv` — the conformance harness between the TLA+ specifications in /verif/spec and the
//! real kiki crate (path dependency on /repo/kiki with the `verif` feature).
//!
//! It never decides a property. It executes requests (ND-JSON on stdin) against the real
//! code and reports what the code did (ND-JSON on stdout). Judgement is made by TLC or by
//! comparing with TLC's predictions in the driver.

mod conv;
mod oset;
mod total;

use serde_json::{json, Value};
use std::cell::RefCell;
use std::io::{BufRead, Write};
use std::sync::mpsc;
use std::time::Duration;

thread_local! {
    static LAST_PANIC: RefCell<Option<(String, String)>> = const { RefCell::new(None) };
}

pub fn install_panic_hook() {
    std::panic::set_hook(Box::new(|info| {
        let msg = if let Some(s) = info.payload().downcast_ref::<&str>() {
            s.to_string()
        } else if let Some(s) = info.payload().downcast_ref::<String>() {
            s.clone()
        } else {
            "<non-string panic>".to_string()
        };
        let loc = info
            .location()
            .map(|l| format!("{}:{}", l.file(), l.line()))
            .unwrap_or_default();
        LAST_PANIC.with(|p| *p.borrow_mut() = Some((msg, loc)));
    }));
}

pub fn take_panic() -> (String, String) {
    LAST_PANIC
        .with(|p| p.borrow_mut().take())
        .unwrap_or_default()
}

/// Runs `f` under catch_unwind; a panic becomes `Err((message, location))`.
pub fn guarded<T>(f: impl FnOnce() -> T) -> Result<T, (String, String)> {
    match std::panic::catch_unwind(std::panic::AssertUnwindSafe(f)) {
        Ok(v) => Ok(v),
        Err(_) => Err(take_panic()),
    }
}

fn wants(req: &Value, what: &str) -> bool {
    req["want"]
        .as_array()
        .map(|a| a.iter().any(|x| x == what))
        .unwrap_or(false)
}

fn result_json(r: &Result<kiki::RustSrc, kiki::KikiErr>, with_rust: bool) -> Value {
    match r {
        Ok(src) => {
            if with_rust {
                json!({"t": "ok", "rust": src.0})
            } else {
                json!({"t": "ok"})
            }
        }
        Err(e) => json!({"t": "err", "err": conv::err(e)}),
    }
}

/// One `generate` request. The verdict always comes from the public `kiki::generate`;
/// intermediates come from `kiki::verif::stages` and are cross-checked against it.
fn handle_gen(req: &Value) -> Value {
    let src = req["src"].as_str().unwrap_or("");
    let mut out = json!({"id": req["id"]});
    let with_rust = wants(req, "rust");

    let want_events = wants(req, "events")
        || wants(req, "lexev")
        || wants(req, "buildev")
        || wants(req, "fillev")
        || wants(req, "names")
        || wants(req, "closev");
    if want_events {
        kiki::verif::start_recording();
    }
    let res = guarded(|| kiki::generate(src));
    let events = if want_events {
        kiki::verif::take_recording()
    } else {
        vec![]
    };
    let (res_json, debug_repr) = match &res {
        Ok(r) => (
            result_json(r, with_rust),
            match r {
                Ok(s) => s.0.clone(),
                Err(e) => format!("{e:?}"),
            },
        ),
        Err((msg, loc)) => (
            json!({"t": "panic", "msg": msg, "loc": loc}),
            String::new(),
        ),
    };
    out["res"] = res_json;
    if let Ok(Ok(rust)) = &res {
        if wants(req, "hash") {
            out["hash"] = json!(kiki::get_grammar_hash(rust.as_ref()));
        }
    }
    if want_events {
        let sel = |e: &kiki::verif::Event| -> bool {
            use kiki::verif::Event::*;
            wants(req, "events")
                || match e {
                    LexStep { .. } => wants(req, "lexev"),
                    FirstPass { .. } | FirstSets(_) | BuilderPop(_) | BuilderTarget { .. } => wants(req, "buildev"),
                    ScanItem { .. } | SetAction { .. } | FillOrder(_) | GotoFillOrder(_) => wants(req, "fillev"),
                    FreshNames(_) => wants(req, "names"),
                    Closure { .. } => wants(req, "closev"),
                    #[allow(unreachable_patterns)]
                    _ => wants(req, "buildev"),
                }
        };
        out["events"] = Value::Array(
            events
                .iter()
                .filter(|e| sel(e))
                .map(conv::event)
                .collect(),
        );
    }

    let want_stages = wants(req, "tokens")
        || wants(req, "have")
        || wants(req, "grammar")
        || wants(req, "machine")
        || wants(req, "table");
    if want_stages && res.is_ok() {
        match guarded(|| kiki::verif::stages(src)) {
            Ok(st) => {
                let st_repr = match &st.result {
                    Some(Ok(s)) => s.0.clone(),
                    Some(Err(e)) => format!("{e:?}"),
                    None => "<none>".to_string(),
                };
                if st_repr != debug_repr {
                    out["stages_mismatch"] = json!(true);
                }
                if wants(req, "have") {
                    let mut have: Vec<&str> = vec![];
                    if st.tokens.is_some() {
                        have.push("tokens");
                    }
                    if st.parsed {
                        have.push("cst");
                    }
                    if st.validated.is_some() {
                        have.push("validated");
                    }
                    if st.machine.is_some() {
                        have.push("machine");
                    }
                    if st.table.is_some() {
                        have.push("table");
                    }
                    if matches!(st.result, Some(Ok(_))) {
                        have.push("rust");
                    }
                    out["have"] = json!(have);
                }
                if wants(req, "tokens") {
                    if let Some(t) = &st.tokens {
                        out["tokens"] = Value::Array(t.iter().map(conv::token).collect());
                    }
                }
                if wants(req, "grammar") {
                    if let Some(v) = &st.validated {
                        out["grammar"] = conv::grammar(v);
                    }
                }
                if wants(req, "machine") {
                    if let Some(m) = &st.machine {
                        out["machine"] = conv::machine(m);
                    }
                }
                if wants(req, "table") {
                    if let Some(t) = &st.table {
                        out["table"] = conv::table(t);
                    }
                }
            }
            Err((msg, loc)) => {
                out["stages_panic"] = json!({"msg": msg, "loc": loc});
            }
        }
    }

    // determinism: run again `reps` times, each in a fresh thread (fresh RandomState keys),
    // and report the number of distinct outcomes and the distinct hash-map orders observed.
    if let Some(reps) = req["reps"].as_u64() {
        let mut outcomes: Vec<String> = vec![debug_repr.clone()];
        let mut orders: Vec<String> = vec![];
        for _ in 0..reps {
            let s = src.to_string();
            let h = std::thread::Builder::new()
                .stack_size(64 << 20)
                .spawn(move || {
                    kiki::verif::start_recording();
                    let r = guarded(|| kiki::generate(&s));
                    let ev = kiki::verif::take_recording();
                    let order = ev
                        .iter()
                        .filter_map(|e| match e {
                            kiki::verif::Event::FillOrder(_)
                            | kiki::verif::Event::GotoFillOrder(_) => Some(conv::event(e).to_string()),
                            _ => None,
                        })
                        .collect::<Vec<_>>()
                        .join("|");
                    let repr = match r {
                        Ok(Ok(s)) => s.0,
                        Ok(Err(e)) => format!("{e:?}"),
                        Err((m, l)) => format!("PANIC {m} {l}"),
                    };
                    (repr, order)
                })
                .unwrap();
            let (repr, order) = h.join().unwrap();
            if !outcomes.contains(&repr) {
                outcomes.push(repr);
            }
            if !orders.contains(&order) {
                orders.push(order);
            }
        }
        out["distinct_outcomes"] = json!(outcomes.len());
        out["distinct_orders"] = json!(orders.len());
        if outcomes.len() > 1 {
            out["outcomes"] = json!(outcomes);
        }
        if wants(req, "orders") {
            out["orders"] = json!(orders);
        }
    }
    out
}

fn handle_hash(req: &Value) -> Value {
    let text = req["text"].as_str().unwrap_or("");
    match guarded(|| kiki::get_grammar_hash(kiki::RustSrcRef(text)).map(|s| s.to_string())) {
        Ok(r) => json!({"id": req["id"], "res": r}),
        Err((msg, loc)) => json!({"id": req["id"], "panic": {"msg": msg, "loc": loc}}),
    }
}

/// One run of the build script (kiki/build.rs) on a grammar text and the parser file next to it
/// (`parser` = null: the file does not exist): the same three library calls in the same order.
fn handle_fresh(req: &Value) -> Value {
    let gram = req["gram"].as_str().unwrap_or("");
    let parser: Option<&str> = req["parser"].as_str();
    let r = guarded(|| {
        let file_hash = sha256::digest(gram);
        if let Some(rs_contents) = parser {
            let rs_contents = kiki::RustSrcRef(rs_contents);
            if kiki::get_grammar_hash(rs_contents) == Some(&file_hash) {
                // The .kiki file has not changed.
                return ("fresh", None);
            }
        }
        match kiki::generate(gram) {
            Ok(s) => ("regenerated", Some(s.0)),
            Err(_) => ("failed", None),
        }
    });
    match r {
        Ok((outcome, written)) => json!({"id": req["id"], "outcome": outcome, "written": written}),
        Err((msg, loc)) => json!({"id": req["id"], "outcome": "panic", "panic": {"msg": msg, "loc": loc}}),
    }
}

fn handle_tokenize(req: &Value) -> Value {
    let src = req["src"].as_str().unwrap_or("");
    let want_ev = wants(req, "lexev");
    if want_ev {
        kiki::verif::start_recording();
    }
    let r = guarded(|| kiki::verif::tokenize(src));
    let ev = if want_ev {
        kiki::verif::take_recording()
    } else {
        vec![]
    };
    let mut out = json!({"id": req["id"]});
    out["res"] = match r {
        Ok(Ok(toks)) => json!({"t": "ok", "tokens": toks.iter().map(conv::token).collect::<Vec<_>>()}),
        Ok(Err(e)) => json!({"t": "err", "err": conv::err(&e)}),
        Err((msg, loc)) => json!({"t": "panic", "msg": msg, "loc": loc}),
    };
    if want_ev {
        out["events"] = Value::Array(ev.iter().map(conv::event).collect());
    }
    out
}

fn dispatch(cmd: &str, req: &Value) -> Value {
    match cmd {
        "gen" => handle_gen(req),
        "hash" => handle_hash(req),
        "fresh" => handle_fresh(req),
        "tokenize" => handle_tokenize(req),
        "oset" => oset::handle(req),
        _ => json!({"id": req["id"], "tool_error": format!("unknown command {cmd}")}),
    }
}

/// Request/response loop with a per-request watchdog: every request runs on a worker thread
/// (64 MiB stack); if it does not answer in time the request is reported as `hang`, the worker
/// is abandoned and a new one is started.
fn serve(cmd: &'static str, timeout: Duration) {
    fn spawn_worker(
        cmd: &'static str,
    ) -> (mpsc::Sender<Value>, mpsc::Receiver<Value>) {
        let (tx_req, rx_req) = mpsc::channel::<Value>();
        let (tx_res, rx_res) = mpsc::channel::<Value>();
        std::thread::Builder::new()
            .stack_size(64 << 20)
            .spawn(move || {
                while let Ok(req) = rx_req.recv() {
                    let res = dispatch(cmd, &req);
                    if tx_res.send(res).is_err() {
                        break;
                    }
                }
            })
            .unwrap();
        (tx_req, rx_res)
    }
    let stdin = std::io::stdin();
    let stdout = std::io::stdout();
    let mut w = std::io::BufWriter::new(stdout.lock());
    let (mut tx, mut rx) = spawn_worker(cmd);
    let mut hangs = 0u32;
    for line in stdin.lock().lines() {
        let line = line.expect("stdin");
        if line.trim().is_empty() {
            continue;
        }
        let req: Value = match serde_json::from_str(&line) {
            Ok(v) => v,
            Err(e) => {
                writeln!(w, "{}", json!({"tool_error": format!("bad request: {e}")})).unwrap();
                continue;
            }
        };
        let id = req["id"].clone();
        if hangs >= 5 {
            // every abandoned worker keeps spinning; after five hangs the remaining requests are not attempted
            writeln!(w, "{}", json!({"id": id, "res": {"t": "hang", "not_attempted": true}})).unwrap();
            w.flush().unwrap();
            continue;
        }
        tx.send(req).unwrap();
        let res = match rx.recv_timeout(timeout) {
            Ok(v) => v,
            Err(mpsc::RecvTimeoutError::Timeout) => {
                let fresh = spawn_worker(cmd);
                tx = fresh.0;
                rx = fresh.1;
                hangs += 1;
                json!({"id": id, "res": {"t": "hang", "after_s": timeout.as_secs()}})
            }
            Err(mpsc::RecvTimeoutError::Disconnected) => {
                let fresh = spawn_worker(cmd);
                tx = fresh.0;
                rx = fresh.1;
                json!({"id": id, "res": {"t": "panic", "msg": "worker died", "loc": ""}})
            }
        };
        writeln!(w, "{res}").unwrap();
        // flush per response: if the code under test aborts the process, the driver must know exactly which request did it
        w.flush().unwrap();
    }
    w.flush().unwrap();
    // abandoned (hung) workers must not keep the process alive
    std::process::exit(0);
}

fn main() {
    install_panic_hook();
    let args: Vec<String> = std::env::args().collect();
    let cmd = args.get(1).map(|s| s.as_str()).unwrap_or("");
    let timeout = std::env::var("KV_TIMEOUT_S")
        .ok()
        .and_then(|s| s.parse::<u64>().ok())
        .unwrap_or(30);
    match cmd {
        "gen" => serve("gen", Duration::from_secs(timeout)),
        "hash" => serve("hash", Duration::from_secs(timeout)),
        "fresh" => serve("fresh", Duration::from_secs(timeout)),
        "tokenize" => serve("tokenize", Duration::from_secs(timeout)),
        "oset" => serve("oset", Duration::from_secs(timeout)),
        "total" => total::main(&args[2..]),
        "child-gen" => total::child_gen(),
        _ => {
            eprintln!("usage: kv gen|hash|fresh|tokenize|oset|total|child-gen");
            std::process::exit(2);
        }
    }
}
