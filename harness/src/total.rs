//! Totality drivers (C07).
//!
//! `kv child-gen` reads one source text from stdin and runs `kiki::generate` on the *main*
//! thread with the platform's default stack, so that aborts (stack overflow, OOM) are visible
//! to the parent as an abnormal exit. It prints one JSON line with the outcome class.
//!
//! `kv total <seed> <count> <corpus-dir>...` mutates corpus files with seeded random edits and
//! runs each through `generate` under catch_unwind, printing only the non-returning cases and a
//! summary line.

use crate::{conv, guarded};
use rand::rngs::StdRng;
use rand::{Rng, SeedableRng};
use serde_json::json;
use std::io::Read;

pub fn child_gen() {
    let mut src = String::new();
    std::io::stdin().read_to_string(&mut src).unwrap();
    let t0 = std::time::Instant::now();
    let r = guarded(|| kiki::generate(&src));
    let out = match r {
        Ok(Ok(s)) => json!({"t": "ok", "len": s.0.len()}),
        Ok(Err(e)) => {
            let mut v = conv::err(&e);
            // keep the line small
            if v["v"] == "TableConflict" {
                v = json!({"v": "TableConflict"});
            }
            json!({"t": "err", "err": v})
        }
        Err((msg, loc)) => json!({"t": "panic", "msg": msg, "loc": loc}),
    };
    let mut out = out;
    out["ms"] = json!(t0.elapsed().as_millis() as u64);
    println!("{out}");
}

const ALPHABET: &[&str] = &[
    "a", "Z", "9", "_", "x_1", "start", "struct", "enum", "terminal", "$", "$A", "$a", ":", "::",
    ",", "(", ")", "{", "}", "<", ">", "[", "]", "#", "#[", "#[a]", "/", "//", " ", "\t", "\n",
    "\r\n", "\r", "\u{a0}", "\u{3000}", "\u{85}", "\u{2028}", "\u{200b}", "é", "€", "😀", "\0",
    "\u{301}", "\"", "!", "=", "-", ".", ";", "'", "\\", "$_", "$start", "_:", "()", "S", "T",
    "Eof", "Node", "Option", "Self",
];

fn mutate(rng: &mut StdRng, base: &str) -> String {
    let mut chars: Vec<char> = base.chars().collect();
    let edits = rng.gen_range(1..=4);
    for _ in 0..edits {
        let pos = if chars.is_empty() {
            0
        } else {
            rng.gen_range(0..=chars.len())
        };
        match rng.gen_range(0..6) {
            0 | 1 => {
                let ins: Vec<char> = ALPHABET[rng.gen_range(0..ALPHABET.len())].chars().collect();
                for (k, c) in ins.into_iter().enumerate() {
                    chars.insert(pos + k, c);
                }
            }
            2 => {
                if pos < chars.len() {
                    let n = rng.gen_range(1..=4.min(chars.len() - pos));
                    chars.drain(pos..pos + n);
                }
            }
            3 => {
                if pos < chars.len() {
                    let ins: Vec<char> =
                        ALPHABET[rng.gen_range(0..ALPHABET.len())].chars().collect();
                    chars.remove(pos);
                    for (k, c) in ins.into_iter().enumerate() {
                        chars.insert(pos + k, c);
                    }
                }
            }
            4 => {
                if pos + 1 < chars.len() {
                    chars.swap(pos, pos + 1);
                }
            }
            _ => {
                // duplicate or move a whole line
                let text: String = chars.iter().collect();
                let lines: Vec<&str> = text.split_inclusive('\n').collect();
                if !lines.is_empty() {
                    let i = rng.gen_range(0..lines.len());
                    let j = rng.gen_range(0..=lines.len());
                    let mut v: Vec<&str> = lines.clone();
                    v.insert(j, lines[i]);
                    chars = v.concat().chars().collect();
                }
            }
        }
    }
    chars.into_iter().collect()
}

pub fn main(args: &[String]) {
    let seed: u64 = args.first().and_then(|s| s.parse().ok()).unwrap_or(1);
    let count: usize = args.get(1).and_then(|s| s.parse().ok()).unwrap_or(1000);
    let mut corpus: Vec<String> = vec![];
    for dir in &args[2..] {
        let mut stack = vec![std::path::PathBuf::from(dir)];
        while let Some(p) = stack.pop() {
            if p.is_dir() {
                let mut entries: Vec<_> = std::fs::read_dir(&p)
                    .map(|r| r.filter_map(|e| e.ok()).map(|e| e.path()).collect())
                    .unwrap_or_default();
                entries.sort();
                stack.extend(entries);
            } else if p.extension().map(|e| e == "kiki").unwrap_or(false) {
                if let Ok(s) = std::fs::read_to_string(&p) {
                    corpus.push(s);
                }
            }
        }
    }
    corpus.sort();
    if corpus.is_empty() {
        corpus.push("start S\nstruct S { a: $A }\nterminal T { $A: () }\n".to_string());
    }
    // The fuzz loop runs on a worker thread (64 MiB stack); the main thread is the watchdog: a call that does not
    // return within 60 s is reported as a hang together with its input, and the run stops there.
    let (tx, rx) = std::sync::mpsc::channel::<(usize, Option<String>)>();
    let (txr, rxr) = std::sync::mpsc::channel::<String>();
    std::thread::Builder::new()
        .stack_size(64 << 20)
        .spawn(move || {
            let mut rng = StdRng::seed_from_u64(seed);
            let mut classes: std::collections::BTreeMap<String, u64> = Default::default();
            let mut bad = 0u64;
            for k in 0..count {
                let base = &corpus[rng.gen_range(0..corpus.len())];
                let src = mutate(&mut rng, base);
                tx.send((k, Some(src.clone()))).ok();
                let r = guarded(|| kiki::generate(&src));
                let class = match &r {
                    Ok(Ok(_)) => "ok".to_string(),
                    Ok(Err(e)) => conv::err(e)["v"].as_str().unwrap_or("?").to_string(),
                    Err(_) => "panic".to_string(),
                };
                *classes.entry(class).or_default() += 1;
                if let Err((msg, loc)) = r {
                    bad += 1;
                    txr.send(json!({"k": k, "t": "panic", "msg": msg, "loc": loc, "src": src}).to_string()).ok();
                }
                tx.send((k, None)).ok();
            }
            txr.send(json!({"summary": true, "count": count, "bad": bad, "classes": classes}).to_string()).ok();
        })
        .unwrap();
    let mut current: Option<(usize, String)> = None;
    loop {
        while let Ok(line) = rxr.try_recv() {
            println!("{line}");
        }
        match rx.recv_timeout(std::time::Duration::from_secs(60)) {
            Ok((k, Some(src))) => current = Some((k, src)),
            Ok((_, None)) => current = None,
            Err(std::sync::mpsc::RecvTimeoutError::Timeout) => {
                if let Some((k, src)) = &current {
                    println!("{}", json!({"k": k, "t": "hang", "src": src}));
                }
                println!("{}", json!({"summary": true, "count": count, "bad": 1, "aborted": true}));
                std::process::exit(0);
            }
            Err(std::sync::mpsc::RecvTimeoutError::Disconnected) => break,
        }
    }
    while let Ok(line) = rxr.try_recv() {
        println!("{line}");
    }
}
