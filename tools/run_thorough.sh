#!/bin/bash
# Runs every check's thorough tier once, sequentially, logging exit status and wall time.
cd /verif
for p in "$@"; do
  t0=$(date +%s)
  timeout 7200 ./check $p thorough > /verif/work/t/thorough_$p.log 2>&1; rc=$?
  echo "$p rc=$rc $(( $(date +%s) - t0 ))s $(tail -1 /verif/work/t/thorough_$p.log | cut -c1-160)" >> /verif/work/thorough.txt
done
echo "done" >> /verif/work/thorough.txt
