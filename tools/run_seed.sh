#!/bin/bash
# usage: run_seed.sh <seed-id> <ID>...  - apply seeded/<id>/patch.diff to /repo, run the quick checks, revert; prints rc per check
id="$1"; shift
/verif/tools/mutant.sh /verif/seeded/$id/patch.diff "$@" 2>&1 | grep -E "^== |VIOLATION|TOOL-ERROR|patch does not|^  C[0-9]" | cut -c1-220 | awk '/VIOLATION/{if(v++<1)print; next} {print}' | head -12
