#!/usr/bin/env python3
"""Fills checks_run / caught_by in seeded/*/meta.json from work/seed_results.txt (latest result per seed and check)
and prints the markdown table for DESIGN.md section 14."""
import json, os, re, glob
res = {}
cur = None
for ln in open("/verif/work/seed_results.txt"):
    m = re.match(r"^#### (\S+) :", ln)
    if m:
        cur = m.group(1)
        continue
    m = re.match(r"^== (C\d+) rc=(\d+)", ln)
    if m and cur:
        res.setdefault(cur, {})[m.group(1)] = int(m.group(2))
rows = []
for d in sorted(glob.glob("/verif/seeded/*")):
    sid = os.path.basename(d)
    meta = json.load(open(os.path.join(d, "meta.json")))
    r = res.get(sid, {})
    meta["checks_run"] = {k: {0: "held (missed)", 1: "VIOLATION", 2: "tool error"}[v] for k, v in sorted(r.items())}
    meta["caught_by"] = sorted(k for k, v in r.items() if v == 1)
    json.dump(meta, open(os.path.join(d, "meta.json"), "w"), indent=1)
    rows.append("| %s | %s | %s | %s |" % (sid, meta["needs_to_manifest"], ", ".join(meta["caught_by"]) or "-",
                                         ", ".join(k for k, v in sorted(r.items()) if v != 1) or "-"))
print("| seed | needs, in order to manifest | caught by (quick tier) | run but not caught |")
print("|---|---|---|---|")
print("\n".join(rows))
