#!/bin/bash
# Runs every mutant in /verif/mutants against the checks expected to catch it (quick tier, design-level MC skipped).
# Output: one line per (mutant, check): rc (1 = caught, 0 = missed, 2 = tool error) and the first reason.
declare -A T=(
 [m01_one_directional_core]="C04 C17" [m02_prefer_shift]="C04 C17 C01" [m03_conflict_state0]="C11" [m04_conflict_same_item]="C11"
 [m05_ident_unicode_alnum]="C08" [m06_ascii_whitespace_only]="C08 C16" [m07_comment_ends_at_cr]="C08 C16"
 [m08_extend_no_dedup]="C18" [m09_extend_single_fastpath]="C18" [m10_hash_contains]="C15" [m11_hash_no_stop]="C15" [m12_hash_of_trimmed]="C15"
 [m13_terminal_kw_len]="C09" [m14_terminal_ident_start]="C09" [m15_parser_rs_cell_flip]="C09"
 [m16_nameclash_same_pos]="C10" [m17_skip_seq_uniqueness]="C10" [m18_start_skips_undefined_check]="C10 C07"
 [m19_named_underscore_kept]="C06" [m20_type_args_reversed]="C13" [m21_nested_args_flattened]="C13" [m23_attrs_dedup]="C12"
 [m24_conflict_scan_hash_order]="C14" [m25_try_into_fns_hash_order]="C14"
 [revert_F1_attr_utf8]="C08 C12 C07" [revert_F2_attr_relative_index]="C08" [revert_F3_unterminated_attr]="C08"
 [revert_F4_shared_namespace]="C10 C07" [revert_F5_first_sets_seed]="C04 C07" [revert_F6_eof_literal]="C05" [revert_F7_type_param]="C05"
 [revert_F8_zero_terminals]="C05" [revert_F9_pub_tuple_fields]="C06" [revert_F10_hash_prefix]="C15" [revert_F11_self_error]="C05"
)
for m in $(echo "${!T[@]}" | tr ' ' '\n' | sort); do
  for id in ${T[$m]}; do
    out=$(/verif/tools/mutant.sh /verif/mutants/$m.diff $id 2>&1)
    rc=$(echo "$out" | grep -o "rc=[0-9]*" | head -1)
    why=$(echo "$out" | grep -A1 VIOLATION | grep -v "VIOLATION\|^--" | head -1 | cut -c1-160)
    [ -z "$why" ] && why=$(echo "$out" | grep -E "TOOL-ERROR|patch does not" | head -1 | cut -c1-160)
    echo "$m | $id | $rc | $why"
  done
done
