#!/bin/bash
# usage: tools/mutant.sh <patch-file> <ID>...   — apply a patch to /repo, run the quick checks (MC skipped), revert.
set -u
patch="$1"; shift
cd /repo || exit 2
if ! git diff --quiet; then echo "/repo has uncommitted changes" >&2; exit 2; fi
git apply "$patch" || { echo "patch does not apply" >&2; exit 2; }
trap 'git -C /repo checkout -- . ' EXIT
for id in "$@"; do
  out=$(cd /verif && VERIF_SKIP_MC=1 timeout 1800 ./check "$id" quick 2>&1); rc=$?
  echo "== $id rc=$rc"; echo "$out" | grep -E "VIOLATION|TOOL-ERROR|KNOWN-FINDING|CONFORMANCE-DRIFT|held on" | head -4
  echo "$out" | grep -A1 VIOLATION | grep -v VIOLATION | head -2
done
