#!/bin/bash
# seed_batch.sh "<seed> <ids...>" ...  - runs run_seed.sh for each argument, appending to work/seed_results.txt
for spec in "$@"; do
  set -- $spec; seed=$1; shift
  echo "#### $seed : $*" >> /verif/work/seed_results.txt
  /verif/tools/run_seed.sh $seed "$@" >> /verif/work/seed_results.txt 2>&1
done
echo "#### batch done" >> /verif/work/seed_results.txt
