#!/bin/bash
# Runs every registered quick check once on the current /repo tree; one line per check in work/quick_all.txt.
cd /verif
out=work/quick_all.txt
: > $out
for id in ${@:-C01 C02 C03 C04 C05 C06 C07 C08 C09 C10 C11 C12 C13 C14 C15 C16 C17 C18}; do
  t0=$(date +%s)
  ./check $id quick > work/quick_$id.log 2>&1
  rc=$?
  echo "$id rc=$rc $(( $(date +%s) - t0 ))s $(grep -c '^VIOLATION' work/quick_$id.log) violation line(s)" >> $out
done
echo done >> $out
