#!/usr/bin/env python3
"""keep_seed.py <prop> <k> <needs...>  - copy a confirmed sub-agent change from /tmp/wt_<prop>/SEEDED into /verif/seeded/."""
import sys, os, shutil, json
prop, k = sys.argv[1], sys.argv[2]
needs = " ".join(sys.argv[3:])
src = "/tmp/wt_%s/SEEDED" % prop
dst = "/verif/seeded/%s-%s" % (prop, k)
os.makedirs(dst, exist_ok=True)
shutil.copy(os.path.join(src, "change%s.diff" % k), os.path.join(dst, "patch.diff"))
shutil.rmtree(os.path.join(dst, "demo"), ignore_errors=True)
shutil.copytree(os.path.join(src, "demo%s" % k), os.path.join(dst, "demo"))
meta = {"id": "%s-%s" % (prop, k), "breaks_property": prop, "needs_to_manifest": needs,
        "author": "independent sub-agent given only the property text and a scratch worktree",
        "confirmed": "tools/confirm_seed.sh /tmp/wt_%s %s: clean tree - demo passes; change applied - 118 tests pass, demo fails" % (prop, k),
        "checks_run": None, "caught_by": None}
json.dump(meta, open(os.path.join(dst, "meta.json"), "w"), indent=1)
print(dst)
