#!/bin/bash
# usage: confirm_seed.sh <worktree> <k>  - independently confirm a sub-agent's seeded change:
#   clean tree: demo passes; change applied: 118-test suite passes, demo fails.
wt="$1"; k="$2"; export CARGO_TARGET_DIR="$wt/target"
cd "$wt" || exit 2
git checkout -q -- . ; rm -rf kiki/tests
mkdir -p kiki/tests; cp SEEDED/demo$k/*.rs kiki/tests/ 2>/dev/null
clean=$(timeout 900 cargo test -p kiki@7.1.0 --test demo --offline 2>&1 | grep -E "^test result" | tail -1)
rm -rf kiki/tests
git apply SEEDED/change$k.diff || { echo "patch does not apply"; exit 2; }
suite=$(timeout 1200 cargo test --workspace --no-fail-fast --offline 2>&1 | grep -E "^test result" | awk '{p+=$4; f+=$6} END {print p" passed "f" failed"}')
git checkout -q -- kiki_e2e_test
mkdir -p kiki/tests; cp SEEDED/demo$k/*.rs kiki/tests/
mut=$(timeout 900 cargo test -p kiki@7.1.0 --test demo --offline 2>&1 | grep -E "^test result" | tail -1)
rm -rf kiki/tests; git checkout -q -- .
echo "clean-demo: $clean"; echo "mutated-suite: $suite"; echo "mutated-demo: $mut"
