#!/usr/bin/env python3
"""keep_seed6.py <worktree> <k> <seed-id> <property> <needs...>"""
import sys, os, shutil, json
wt, k, sid, prop = sys.argv[1:5]
needs = " ".join(sys.argv[5:])
src = os.path.join(wt, "SEEDED")
dst = "/verif/seeded/%s" % sid
os.makedirs(dst, exist_ok=True)
shutil.copy(os.path.join(src, "change%s.diff" % k), os.path.join(dst, "patch.diff"))
shutil.rmtree(os.path.join(dst, "demo"), ignore_errors=True)
shutil.copytree(os.path.join(src, "demo%s" % k), os.path.join(dst, "demo"))
meta = {"id": sid, "breaks_property": prop, "needs_to_manifest": needs,
        "author": "independent sub-agent (sixth round: given one property text and a scratch worktree only)",
        "confirmed": "tools/confirm_seed.sh %s %s: clean tree - demo passes; change applied - 118 tests pass, demo fails" % (wt, k),
        "checks_run": None, "caught_by": None}
json.dump(meta, open(os.path.join(dst, "meta.json"), "w"), indent=1)
print(dst)
