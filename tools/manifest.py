#!/usr/bin/env python3
"""Regenerates /verif/MANIFEST.json from the table below (single source of truth for what is claimed)."""
import json, os, subprocess
ROOT = os.path.dirname(os.path.dirname(os.path.abspath(__file__)))
props = [json.loads(l) for l in open(os.path.join(ROOT, "properties.jsonl"))]

CHECKS = {
 "C04": dict(engine="pipeline", design="5 C04, 3.3, 3.4",
   technique="TLC model checking of TableFill.tla (MC_TableFill) + TLC-judged end-state conformance of the real generate on every grammar of the TLA+ universes (PipelineJudge over LR1.tla) + TLC trace validation of recorded builder/table-fill events (PipelineTrace)",
   text="TLC exhaustively checks, for every grammar of a bounded universe (Universe.tla: 2 nonterminals, 2 terminals, <=3 rules, |rhs|<=2 = 12 383 grammars, plus 29 classics) that the operational table filler ends in a conflict iff the declaratively defined LALR(1) automaton (canonical LR(1) merged by core) has a conflict. Every one of those grammars, seeded random larger ones and the repository's grammars are pushed through the real kiki::generate and the observed verdict is judged by TLC against the same declarative definition. Exhaustive within the universe, sampled beyond.",
   note="Trusted: TLC and the CommunityModules Json override; the grammar->Kiki-text rendering (cross-checked against the grammar kiki itself extracts); bounded universes. The declarative LR1.tla definitions are the textbook ones and are checked against literature verdicts for the classics (MC_TableFill ASSUME)."),
 "C11": dict(engine="pipeline", design="5 C11, 3.3, 3.4",
   technique="TLC model checking of TableFill.tla (WitnessGenuine) + TLC-judged payload of every real TableConflict error (PipelineJudge: Genuine, MachineMatch) + trace validation",
   text="For every conflicting grammar of the universes the public fields of the real KikiErr::TableConflict (state index, both items, attached automaton, attached grammar) are serialised and judged by TLC: index in range, both items members of that state, ItemActs differ on one lookahead, attached automaton equals LALRStates/LALRTrans of the grammar up to renumbering, attached grammar equals the rendered input grammar.",
   note="As C04. The attached-grammar comparison is structural (start, terminals with types, nonterminals, rules, field patterns) and done by the driver."),
 "C17": dict(engine="pipeline", design="5 C17, 3.3, 3.4",
   technique="TLC model checking of Builder.tla under all worklist schedules (MC_Builder) + TLC-judged tables read back from the emitted Rust text and from the Table value (PipelineJudge: TablesMatch) + trace validation of builder events",
   text="Builder.tla (merge-on-the-fly worklist, any queue order, any symbol order) is shown by TLC to end in exactly LR(1)-merged-by-core for every grammar of the bounded universe; the tables of every accepted grammar are parsed out of the real emitted text (and cross-checked with the Table value from the hook) and judged by TLC with TablesMatch: bijection between table states and LALR states found by a deterministic walk, every action/goto cell equal, error elsewhere.",
   note="As C04. Table extraction from the emitted text is structural (locates get_action/get_goto, the kind enums and the two statics independent of the fresh names); a format the extractor cannot read is a tool error (exit 2), never a violation."),
}

def main():
    hook_commits = subprocess.run(["git", "-C", "/repo", "log", "--format=%h %s"], capture_output=True, text=True).stdout.splitlines()
    hooks = [l.split()[0] for l in hook_commits if l.split(" ", 1)[1].startswith("verif:")]
    checks = []
    for p in props:
        c = CHECKS.get(p["id"])
        if not c:
            continue
        checks.append({
            "property_id": p["id"],
            "quick_cmd": "./check %s quick" % p["id"],
            "thorough_cmd": "./check %s thorough" % p["id"],
            "evidence_file": "/verif/evidence/%s.json" % p["id"],
            "replay_cmd_template": "./check %s --replay {path}" % p["id"],
            "engine": c["engine"],
            "level_claimed": {"category": "model_checking", "text": c["text"], "design_ref": "DESIGN.md section " + c["design"]},
            "level_note": c["note"],
            "technique": c["technique"],
        })
    engines = {}
    for pid, c in CHECKS.items():
        engines.setdefault(c["engine"], []).append(pid)
    m = {
        "version": 1,
        "setup_cmd": "cd /verif/harness && (test -f Cargo.lock || cp /repo/Cargo.lock Cargo.lock) && CARGO_NET_OFFLINE=true cargo build --release --offline",
        "hooks": {
            "guard": "cargo feature `verif` of crate kiki (#[cfg(feature = \"verif\")])",
            "enable": "the harness /verif/harness depends on kiki = { path = \"/repo/kiki\", features = [\"verif\"] }; every check rebuilds it with cargo build --release --offline",
            "baseline_off_cmd": "cd /repo && cargo test --workspace --no-fail-fast --offline",
            "source_commits": hooks[::-1],
            "add_only": True,
        },
        "engines": [{"name": e, "path": "/verif/lib/%s.py" % e, "serves_properties": sorted(ps),
                     "kind_free_text": "python driver over TLC (spec/*.tla) and the Rust harness kv"} for e, ps in sorted(engines.items())],
        "checks": checks,
        "not_applicable": [{"property_id": p["id"], "reason": "check not built yet (work in progress; the design claims it, see DESIGN.md section 5)"}
                           for p in props if p["id"] not in CHECKS],
        "notes": "Every check: builds the harness from /repo's working tree, runs TLC on the TLA+ specifications in /verif/spec, replays/judges the real code against them. Exit 0 held, 1 VIOLATION, 2 tool error.",
    }
    with open(os.path.join(ROOT, "MANIFEST.json"), "w") as f:
        json.dump(m, f, indent=1)
        f.write("\n")

if __name__ == "__main__":
    main()
