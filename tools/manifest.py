#!/usr/bin/env python3
"""Regenerates /verif/MANIFEST.json from the table below (single source of truth for what is claimed)."""
import json, os, subprocess
ROOT = os.path.dirname(os.path.dirname(os.path.abspath(__file__)))
props = [json.loads(l) for l in open(os.path.join(ROOT, "properties.jsonl"))]

CHECKS = {
 "C07": dict(engine="total", design="5 C07",
   technique="TLC model checking of the unwrap/slice preconditions as invariants/Asserts and of termination under fairness (MC_Lexer Accounting, MC_Driver StackDiscipline, MC_TableFill LookupsDefined, MC_BuilderFifo/MC_DriverLive Terminates) + replay of every engine's TLC-generated input set, seeded mutation fuzzing and at-the-bounds stress inputs on the real generate under catch_unwind, watchdogs and a child process with the default stack",
   text="Design level: the reasons the Rust code cannot panic are invariants of the operational specifications (byte accounting of the tokenizer, stack/node discipline of the parse loop, defined FIRST/shift/goto lookups, no goto conflict) and termination is checked under fairness. Conformance: all ~35 000 atom strings, ~23 000 edited files, the 12 383-grammar universe and front-end shaped files go through the real generate; 40 000 (quick) to 1.5 M (thorough) mutated repository files run in process under catch_unwind with a 60 s watchdog; 19 stress inputs at the stated bounds (64 KiB, 2000-element lists of every syntactic kind, type nesting 256, terminal-less/variant-less/unproductive grammars) run in a child process with the default 8 MiB stack so that aborts are seen.",
   note="`Within bounded time` is observed with generous watchdogs, not proved; deeper recursion than the stated bounds is outside C07. Release build of kiki."),
 "C14": dict(engine="determinism", design="5 C14, 3.4",
   technique="TLC model checking of TableFill.tla with hash-map iteration as nondeterministic choice (all copy orders end in the same table: FillOrderIrrelevant, FinalTableIsLALR) + repeated real generate calls in fresh threads and separate processes with byte comparison + hook-recorded iteration orders (distinct orders observed are counted)",
   text="Every place where the implementation iterates a hash collection on the way to an output (build_as_is over two HashMaps) is a nondeterministic choice in TableFill.tla; TLC explores all orders on the bounded universe and shows one final table. The conflict scan is an ordered scan (state index, item order) over the sorted automaton. The real generate is run on 470 (quick) to 6 000 inputs - conflicting grammars, classics, repository files, should_fail fixtures, random invalid files - 9 x 4 (quick) / 49 x 12 (thorough) times in fresh threads and processes; results must be byte-identical; the hook's recorded fill orders show that different hash seeds were really exercised (the check fails as a tool error if fewer than 10 inputs showed two orders).",
   note="Sampling of hash seeds is finite; the exhaustive-order argument holds on the bounded model."),
 "C16": dict(engine="layout", design="5 C16, 3.2.1",
   technique="TLC model checking of MC_Layout (every alternation of pool tokens and layout atoms reads back as the intended tokens under the declarative lexical rules) + re-layout of whole files from real token spans and comparison of the real generate results modulo hash line / position map",
   text="MC_Layout explores every text built from up to 2 (quick) / 3 (thorough, core pools) tokens of a 12-token pool and 10 layout atoms (nothing where NeedsSep allows, space, tab, LF, CR LF, NBSP, ideographic space, comments ended by LF / CR LF, comment with CR inside, comment at end without newline): LexRef reads back exactly the intended tokens with starts equal to accumulated byte lengths (1.7 M states). Whole files - repository grammars, random valid/invalid files covering every error class, conflicting grammars, token-level syntax errors, appended lexical faults - are re-rendered from the real tokenizer's spans under two seeded layouts using the same NeedsSep rule; Ok texts must be identical after deleting the // @sha256 line, errors identical after mapping every byte position through the token map.",
   note="Layouts are drawn by a seeded python RNG from the atom lists (deviation from the design's TLC-simulation idea: no added value). Token spans come from the real tokenizer (checked by C08)."),
 "C05": dict(engine="hygiene", design="5 C05, 3.7, Appendix C",
   technique="TLC model checking of Hygiene.tla (sequential identifier allocator + namespace/scope model of the emitted module) over all assignments of hostile pool names to user roles + comparison of the real allocator's choices (hook) + rustc compilation of every real emitted module on its own with derive-less payload types",
   text="Hygiene.tla models create_unique_identifier as a sequential process over the growing used-set (twelve requests in code order) and the emitted module as binding sites per namespace (module types, module values incl. tuple/unit struct constructors, variant namespaces of the internal enums) and name-based use sites with Rust's resolution rule (the generic parameter of parse shadows module types inside parse; Self::Error vs a variant named Error). TLC checks for every assignment of 30 hostile names (all preferred internal names, their ...2 forms, S, T, Terminal, Error, Item, Shift, S0, R0, letter-less identifiers) to one role exhaustively and to pairs of roles (sample quick, all 18 672 thorough) that no namespace binds a name twice and every use resolves as intended. Each naming is instantiated, generated for real, the allocator's recorded choices compared, and the emitted module compiled alone by rustc in a crate that only defines payload types without derives; boundary grammars (no terminals, variant-less enums, only `_` fields, letter-less names) likewise.",
   note="rustc 1.95 is the oracle for `compiles` (the brief's precondition excludes keywords and prelude names). Trusted: TLC; the skeleton grammar covers struct named/tuple/unit, enum with tuple and named variants, two terminals."),
 "C06": dict(engine="shapes", design="5 C06, 3.7",
   technique="TLC enumeration of all fieldset patterns with the shape laws of Emit.tla (MC_Emit shapes) + comparison of the predicted abstract shape with the real emitted type definitions parsed back + rustc type-check of an external client that constructs/destructures every type exactly",
   text="Emit!Shape maps every declaration pattern (struct|variant x named|tuple|empty x used/_ mask x terminal/nonterminal per field, <=3 fields: 338 patterns) to the abstract emitted item (unit/tuple/braced, field order, names, pub on struct fields named and tuple, Box exactly on nonterminals) and TLC checks the laws C06 states. Each pattern is generated for real, the user-visible region of the emitted text is parsed back into the same abstract syntax and compared; terminal enum and nonterminal types must be pub, in declaration order, variants in order, payload types as declared; the parse signature must be generic over IntoIterator<Item = Tok> returning Result<Start, Option<Tok>>. A client in another module constructs and destructures every emitted type without `..`, and calls parse through a fn pointer and three iterator types; rustc must accept it.",
   note="Trusted: TLC; rustc; the line-based parser of the emitted type region (a line it cannot read is a tool error)."),
 "C12": dict(engine="attrs", design="5 C12, 3.2, 3.7",
   technique="TLC: declarative lexical rules decide for every attribute body of <=3/4 atoms whether `#[body]` is one attribute token (MC_Attrs over LexRef.tla) + placement law (Emit!AttrPlacementOK) + replay on the real generate with byte-for-byte comparison of the lines before each emitted type",
   text="For all ~7 200 (quick) attribute texts built from 19 atoms (three bracket kinds, quotes, /, //, #, =, comma, 2-/3-/4-byte characters, NBSP, CR) LexRef says whether the text is exactly one OuterAttribute token or which lexical errors are admissible. Every single-attribute body is attached, made unique by a counter, to the struct, enum and terminal declaration of a small grammar (0-3 attributes each); in the real emitted text the lines immediately before pub struct/enum N must equal the declared attributes byte for byte in order and each must occur exactly once in the whole output. Other bodies must produce an admissible lexical error or the predicted number of tokens.",
   note="Trusted: TLC; the parser of the emitted type region."),
 "C13": dict(engine="paytypes", design="5 C13, 3.7",
   technique="TLC enumeration of payload type ASTs with TypeTokens (injective, MC_Emit types) + re-tokenisation of the emitted spelling at all six use sites of every terminal compared with the prediction + TLC-judged deeper random types (TypeJudge) + rustc type identity for a resolvable family",
   text="Every type of depth <=1 over 12 paths (2 197 types) is declared with seeded random layout and comments inside the type as the payload of a terminal used in a named struct field, a tuple struct field and an enum variant field; in the real emitted module the type is located at the terminal enum variant, the three fields, the Node enum variant and the try_into_* return type, re-tokenised and compared token for token with Emit!TypeTokens. Random types up to depth 5 are judged by TLC. For types whose paths resolve, a client asserts with rustc that each field has exactly the declared Rust type.",
   note="Trusted: TLC; rustc; structural location of the use sites (FormatDrift = tool error)."),
 "C10": dict(engine="validate", design="5 C10, 3.6, Appendix D",
   technique="TLC model checking of Validate.tla (operational check order sound w.r.t. declarative Truthful/HasViolation on all files within 2-3 edits of base files) + TLC-judged outcome of the real generate on every explored file and on seeded random larger files (ValidateJudge)",
   text="Validate.tla defines, per KikiErr validation variant, when a report is truthful for an abstract file (identifier occurrences are sites standing for byte positions; nonterminal and terminal references resolve in separate namespaces) and when a file has any violation. MC_Validate explores every file within 2 edits (rename an occurrence, toggle $, duplicate/delete item/variant/field, add start; ~23 000 files, depth 3 in the thorough tier) and shows the implementation-ordered checks are sound. Every explored file and 3 000-60 000 random larger ones are rendered to text, run through the real generate, positions mapped back to sites, and judged by TLC: Ok/TableConflict => no violation; error => truthful (any violation present may be reported).",
   note="Trusted: TLC; the rendering with its occurrence<->byte map; name pools with fixed capitalisation classes (the same pools in spec and driver, cross-checked every run)."),
 "C09": dict(engine="frontend", design="5 C09, 3.5",
   technique="TLC model checking of Driver.tla over the LALR(1) tables of the grammar of record (MC_Frontend, all parser configurations within MAXLEN tokens) + TLC TablesMatch judgement of the tables extracted from the checked-in parser.rs + replay of every configuration's witness, rendered to source text, on the real generate + TLC-judged longer random files (DriverJudge)",
   text="The published Kiki grammar is a TLA+ value (KikiSyntax.tla). TLC computes its canonical LR(1) collection (87 states) and LALR(1) automaton (67), judges the ACTION/GOTO tables extracted from kiki/src/parser.rs to be exactly those tables up to renumbering, and explores every parser configuration reachable within 22 (quick) / 30 (thorough) tokens x every next token kind. Each configuration's shortest witness is rendered to text with seeded lexemes and layout (multi-byte comments, CRLF, Unicode spaces) and run through the real generate: accept => no Lex/Parse error; error at token i => Parse(start_i, text_i, end_i) exactly; early end => Parse(len, \"\", len).",
   note="Trusted: TLC; the lexeme/layout rendering (a Lex error on rendered text is itself reported); table extraction from parser.rs is structural. The grammar of record is compared with what kiki extracts from parser.kiki on every run (drift is reported, not decisive)."),
 "C15": dict(engine="header", design="5 C15, 3.7",
   technique="TLC model checking of Header.tla (line-by-line scan == declarative RefHash on all texts of <=4/5 lines over 11 line classes) and Freshness.tla (build-script protocol) + replay of every explored text on the real get_grammar_hash + independent SHA-256 of real emitted headers",
   text="MC_Header shows the scan of get_grammar_hash equals the declarative definition (remainder of the first prefix line inside the maximal leading // block) on every text over line classes that distinguish everything the scan can observe (hash line, doubled prefix, empty remainder, ///, missing space, indentation, empty line, code); every explored text is rendered with seeded LF/CRLF/missing final terminator and given to the real function. For accepted grammars (repository files + seeded random ones with CRLF, no trailing newline, multi-byte comments) get_grammar_hash(generate(src)) must equal python hashlib's SHA-256 of the exact bytes, the line must sit in the leading // block, and a one-byte variation must be judged stale. Freshness.tla model-checks the build-script protocol under an injective digest.",
   note="Trusted: TLC; python hashlib; SHA-256 collision resistance (Digest injective)."),
 "C18": dict(engine="oset", design="5 C18, 3.1",
   technique="TLC model checking of Oset.tla under four element orders + replay of EVERY explored transition on real kiki::Oset values + TLC trace validation of long random histories (OsetTrace) + Apalache inductive invariant over unbounded integers (OsetInd)",
   text="MC_Oset explores two ordered sets over 4 elements under every argument sequence (duplicates, any order) of length <=2/3 for from_iter/insert/extend and checks strict ascent, set denotation, membership by binary search, equality and lexicographic ordering by element set (SetCmp defined on the sets alone). Every transition (about 94 000 in the quick tier, for i64, a reversed Ord, a parity-first Ord and kiki's StateItem) is replayed through the public API only, comparing Deref contents, both IntoIterator impls, len, contains for every element, ==, cmp, partial_cmp and hash equality. Seeded random histories of 200-1000 operations over 16 elements are validated by TLC step by step.",
   note="Trusted: TLC, Apalache (design-level strengthening only), the id<->element tables of the harness."),
 "C01": dict(engine="emitted", design="5 C01, 3.3, 3.4",
   technique="TLC model checking of Driver.tla (emitted shift/reduce loop with environment-supplied input) against the parser-free language definition Cfg.tla + replay of every explored run on real emitted parsers compiled with rustc + TLC-judged long inputs (DriverJudge)",
   text="MC_Driver explores, for every selected grammar (29 classics + a seeded sample of the 12 383-grammar universe) and every input of up to n tokens the environment can supply, the emitted parse loop over the LALR(1) tables and checks acceptance iff Cfg!IsSentence (a CYK-style least fixed point with no automaton), stack discipline and (liveness) termination. Each finished run is a prediction; the same grammars are pushed through the real generate, the emitted Rust is compiled (payload types without any derive) and run on ALL strings up to n tokens, twice with different payloads; results must equal the predictions. Larger random grammars with inputs up to 40 tokens are judged by TLC.",
   note="Trusted: TLC, rustc, the generated glue (token constructors, counting iterator), bounded universes and input lengths. A grammar generate accepts although the specification says it is not LALR(1) is still checked against its bounded language Lang(G,n)."),
 "C02": dict(engine="emitted", design="5 C02, 3.3, 3.4",
   technique="TLC model checking of Driver.tla (TreeRight: IsTree, Yield, PositionsInOrder) + replay on real emitted parsers with a generated tree walker that destructures every emitted type exactly",
   text="At every Accept of the exploration TLC checks that the value is a derivation tree of the grammar whose leaves are the input tokens in order, each once. The predicted tree is projected through the presentation (struct/enum, named/tuple, `_` masks) and compared with what a generated walker reads out of the value returned by the real emitted parse: the walker destructures each struct/variant without `..`, names every field, requires Box<T> for nonterminal fields and the declared payload type for terminal fields, and prints payload ids that are unique per input position.",
   note="As C01. Payload identity is observed through the glue trait Pay (reads the payload value); unit payloads carry no identity."),
 "C03": dict(engine="emitted", design="5 C03, 3.3, 3.4",
   technique="TLC model checking of Driver.tla (OutcomeRight vs Cfg!RefOutcome viable-prefix chart, StopsLikeCanonical vs LR1!CanonStop, Consumption) + replay on real emitted parsers through a counting iterator + TLC-judged long inputs",
   text="At every error state TLC checks that the reported position is the least i such that w[1..i] is not a prefix of any sentence (declarative chart, productive grammars) and equals the stop position of the canonical LR(1) parser (all grammars), and that exactly i items (or |w|+1 at end of input) were pulled from the environment. The real emitted parsers are fed through a counting iterator that also notices next() after None; the returned token is identified by its payload id.",
   note="As C01."),
 "C08": dict(engine="lexer", design="5 C08, 3.2",
   technique="TLC model checking: tokenizer state machine (Lexer.tla/LexCore.tla) == declarative longest-match lexical grammar (LexRef.tla) on all atom strings + replay of every explored source on the real tokenize/generate + TLC trace validation of per-char tokenizer states (LexTrace) + TLC-judged results of long random sources (LexJudge)",
   text="MC_Lexer checks on every source of <=3 atoms (40 atoms covering every token class, boundary and 1-4 byte characters; ~35 000 sources) that the state machine mirroring tokenize.rs and the declarative rules agree on token kinds, byte spans and error reports (a set of admissible reports when two faults interact) and that byte accounting is exact. All those sources are tokenised by the real code and compared; longer seeded random sources and the repository files are judged by TLC against LexRef and their per-char state traces validated against Lexer.tla.",
   note="Trusted: TLC; the transcription of Unicode White_Space; the atoms universe. Trace drift without a wrong result is reported as CONFORMANCE-DRIFT only."),
 "C04": dict(engine="pipeline", design="5 C04, 3.3, 3.4",
   technique="TLC model checking of TableFill.tla (MC_TableFill) + TLC-judged end-state conformance of the real generate on every grammar of the TLA+ universes (PipelineJudge over LR1.tla) + TLC trace validation of recorded builder/table-fill events (PipelineTrace)",
   text="TLC exhaustively checks, for every grammar of a bounded universe (Universe.tla: 2 nonterminals, 2 terminals, <=3 rules, |rhs|<=2 = 12 383 grammars, plus 29 classics) that the operational table filler ends in a conflict iff the declaratively defined LALR(1) automaton (canonical LR(1) merged by core) has a conflict. Every one of those grammars, seeded random larger ones and the repository's grammars are pushed through the real kiki::generate and the observed verdict is judged by TLC against the same declarative definition. Exhaustive within the universe, sampled beyond.",
   note="Trusted: TLC and the CommunityModules Json override; the grammar->Kiki-text rendering (cross-checked against the grammar kiki itself extracts); bounded universes. The declarative LR1.tla definitions are the textbook ones and are checked against literature verdicts for the classics (MC_TableFill ASSUME)."),
 "C11": dict(engine="pipeline", design="5 C11, 3.3, 3.4",
   technique="TLC model checking of TableFill.tla (WitnessGenuine) + TLC-judged payload of every real TableConflict error (PipelineJudge: Genuine, MachineMatch) + trace validation",
   text="For every conflicting grammar of the universes the public fields of the real KikiErr::TableConflict (state index, both items, attached automaton, attached grammar) are serialised and judged by TLC: index in range, both items members of that state, ItemActs differ on one lookahead, attached automaton equals LALRStates/LALRTrans of the grammar up to renumbering, attached grammar equals the rendered input grammar.",
   note="As C04. The attached-grammar comparison is structural (start, terminals with types, nonterminals, rules, field patterns) and done by the driver."),
 "C17": dict(engine="pipeline", design="5 C17, 3.3, 3.4",
   technique="TLC model checking of FirstSets.tla, Closure.tla and Builder.tla (every worklist schedule; FIFO variants with termination) + TLC-judged tables read back from the emitted Rust text and from the Table value (PipelineJudge: TablesMatch) + trace validation of the recorded FIRST passes, closure-loop iterations, builder and table-fill events (PipelineTrace, ClosureTrace)",
   text="FirstSets.tla (pass structure of first_set_map.rs) reaches exactly the least fixed point, Closure.tla (the get_closure queue loop, any service order and first-in first-out) ends in exactly LR1!Closure of every kernel the builder can close, and Builder.tla (merge-on-the-fly worklist, any queue order, any symbol order) ends in exactly LR(1)-merged-by-core, for every grammar of the bounded universe and the classics; the tables of every accepted grammar are parsed out of the real emitted text (and cross-checked with the Table value from the hook) and judged by TLC with TablesMatch: bijection between table states and LALR states found by a deterministic walk, every action/goto cell equal, error elsewhere. Recorded executions of the real FIRST iteration, closure loop, builder and table filler are validated line by line against the same specifications (diagnostic: CONFORMANCE-DRIFT).",
   note="As C04. Table extraction from the emitted text is structural (locates get_action/get_goto, the kind enums and the two statics independent of the fresh names); a format the extractor cannot read is a tool error (exit 2), never a violation."),
}

def main():
    hook_commits = subprocess.run(["git", "-C", "/repo", "log", "--format=%h %s"], capture_output=True, text=True).stdout.splitlines()
    hooks = [l.split()[0] for l in hook_commits if l.split(" ", 1)[1].startswith("verif:")]
    checks = []
    for p in props:
        c = CHECKS.get(p["id"])
        if not c:
            continue
        checks.append({
            "property_id": p["id"],
            "quick_cmd": "./check %s quick" % p["id"],
            "thorough_cmd": "./check %s thorough" % p["id"],
            "evidence_file": "/verif/evidence/%s.json" % p["id"],
            "replay_cmd_template": "./check %s --replay {path}" % p["id"],
            "engine": c["engine"],
            "level_claimed": {"category": "model_checking", "text": c["text"], "design_ref": "DESIGN.md section " + c["design"]},
            "level_note": c["note"],
            "technique": c["technique"],
        })
    engines = {}
    for pid, c in CHECKS.items():
        engines.setdefault(c["engine"], []).append(pid)
    m = {
        "version": 1,
        "setup_cmd": "cd /verif/harness && (test -f Cargo.lock || cp /repo/Cargo.lock Cargo.lock) && CARGO_NET_OFFLINE=true cargo build --release --offline",
        "hooks": {
            "guard": "cargo feature `verif` of crate kiki (#[cfg(feature = \"verif\")])",
            "enable": "the harness /verif/harness depends on kiki = { path = \"/repo/kiki\", features = [\"verif\"] }; every check rebuilds it with cargo build --release --offline",
            "baseline_off_cmd": "cd /repo && cargo test --workspace --no-fail-fast --offline",
            "source_commits": hooks[::-1],
            "add_only": True,
        },
        "engines": [{"name": e, "path": "/verif/lib/%s.py" % e, "serves_properties": sorted(ps),
                     "kind_free_text": "python driver over TLC (spec/*.tla) and the Rust harness kv"} for e, ps in sorted(engines.items())],
        "checks": checks,
        "not_applicable": [{"property_id": p["id"], "reason": "check not built yet (work in progress; the design claims it, see DESIGN.md section 5)"}
                           for p in props if p["id"] not in CHECKS],
        "notes": "Every check: builds the harness from /repo's working tree, runs TLC on the TLA+ specifications in /verif/spec, replays/judges the real code against them. Exit 0 held, 1 VIOLATION, 2 tool error.",
    }
    with open(os.path.join(ROOT, "MANIFEST.json"), "w") as f:
        json.dump(m, f, indent=1)
        f.write("\n")

if __name__ == "__main__":
    main()
