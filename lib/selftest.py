"""`./check selftest` - negative controls that demonstrate the binding between the specifications and the code WITHOUT
touching /repo: traces recorded from the real code are accepted by the trace specifications, and the same traces with ONE
field corrupted are rejected at exactly that line; judged observations with one corrupted field are judged wrong.
(Controls that modify the code - the hand-written mutants, the reverts of the repairs, the sub-agents' seeded changes - are
run with tools/mutation_matrix.sh and tools/run_seed.sh; their results are in DESIGN.md section 14.)
Exit 0 if every control behaves as expected, 2 otherwise (this is a self-check of the machinery, never a VIOLATION)."""
import copy, json, os, random, re
import common, grammar, pipeline, lexer, oset
from common import ToolError, log


def expect(cond, what, failures):
    print(("ok      " if cond else "FAILED  ") + what)
    if not cond:
        failures.append(what)


def tlc_trace(module, path, extra_env=None):
    env = {"TRACE": path}
    env.update(extra_env or {})
    r = common.tlc(module, env=env, workers=1, timeout=600, deque=True, xmx="2g")
    acc = bool(r.tagged_raw("TRACE-ACCEPTED"))
    rej = r.tagged_raw("TRACE-REJECTED")
    line = int(re.match(r'^<<"TRACE-REJECTED", (\d+)', rej[0]).group(1)) if rej else None
    return acc, line


def write(path, lines):
    with open(path, "w") as f:
        for ln in lines:
            f.write(json.dumps(ln) + "\n")


def main():
    failures = []
    wd = common.workdir("selftest")
    common.build_harness()
    rng = random.Random(7)
    # ---- pipeline traces (FIRST passes, builder, table filler)
    gs, _ = pipeline.dump_universe("classics", wd)
    cases = []
    for G in gs:
        pres = grammar.present(G, rng)
        cases.append({"G": G, "pres": pres, "src": grammar.render(G, pres)})
    resps = common.kv("gen", [{"id": k, "src": c["src"], "want": ["buildev", "fillev", "machine", "table"]} for k, c in enumerate(cases)])
    lines = []
    for k, (c, r) in enumerate(zip(cases, resps)):
        ls = pipeline.trace_lines(k, c, r)
        if ls:
            lines += ls
    p = os.path.join(wd, "pipeline_good.ndjson")
    write(p, lines)
    acc, _ = tlc_trace("PipelineTrace", p)
    expect(acc, "PipelineTrace accepts %d recorded events of %d classics" % (len(lines), len(cases)), failures)
    for ev, field, mutate in (("first_pass", "changed", lambda e: not e), ("target", "grew", lambda e: not e),
                              ("pop", "i", lambda e: e + 9999), ("set_action", "outcome", lambda e: (e + 1) % 3),
                              ("fill", "state", lambda e: e + 1000), ("scan", "state", lambda e: e + 1)):
        idx = [i for i, e in enumerate(lines) if e["ev"] == ev]
        i = idx[len(idx) // 2]
        bad = copy.deepcopy(lines)
        bad[i][field] = mutate(bad[i][field])
        pb = os.path.join(wd, "pipeline_bad_%s.ndjson" % ev)
        write(pb, bad)
        acc, line = tlc_trace("PipelineTrace", pb)
        expect((not acc) and line == i + 1, "PipelineTrace rejects a corrupted `%s.%s` at line %d (rejected at %s)" % (ev, field, i + 1, line), failures)
    # ---- closure loop traces
    resps = common.kv("gen", [{"id": k, "src": c["src"], "want": ["closev"]} for k, c in enumerate(cases)])
    lines = []
    for k, (c, r) in enumerate(zip(cases, resps)):
        lines += pipeline.closure_lines(k, c, r) or []
    p = os.path.join(wd, "closure_good.ndjson")
    write(p, lines)
    acc, _ = tlc_trace("ClosureTrace", p)
    expect(acc, "ClosureTrace accepts %d recorded closure-loop events of %d classics" % (len(lines), len(cases)), failures)
    for ev, what, mutate in (("cexpand", "one pushed item dropped", lambda e: e.update(pushed=e["pushed"][1:])),
                             ("cexpand", "a pushed item's lookahead changed", lambda e: e["pushed"].__setitem__(0, [e["pushed"][0][0], e["pushed"][0][1], "$nope"])),
                             ("cskip", "a skipped item that is not the front of the queue", lambda e: e.update(item=[e["item"][0], e["item"][1] + 1, e["item"][2]])),
                             ("cend", "one item missing from the result", lambda e: e.update(items=e["items"][1:]))):
        idx = [i for i, e in enumerate(lines) if e["ev"] == ev and (ev != "cexpand" or len(e["pushed"]) >= 2)]
        i = idx[len(idx) // 2]
        bad = copy.deepcopy(lines)
        mutate(bad[i])
        pb = os.path.join(wd, "closure_bad.ndjson")
        write(pb, bad)
        acc, line = tlc_trace("ClosureTrace", pb)
        expect((not acc) and line == i + 1, "ClosureTrace rejects %s at line %d (rejected at %s)" % (what, i + 1, line), failures)
    # ---- declarations read off the tree (Ast.tla) against the validated file
    import frontend
    recs = frontend.ast_records([open(f, encoding="utf-8").read() for f in pipeline.repo_grammar_files()][:8] + [c["src"] for c in cases[:10]])
    def ajudge(rs, name):
        path = os.path.join(wd, name)
        write(path, rs)
        r = common.tlc("AstJudge", env={"OBS": path}, workers=1, timeout=900, xmx="3g")
        if r.error:
            raise ToolError("AstJudge failed:\n" + r.error)
        return {j["id"]: j for j in r.tagged("AJUDGE")}
    good = ajudge(recs, "ast_good.ndjson")
    expect(len(good) == len(recs) and all(j["ok"] for j in good.values()), "AstJudge finds the validated files of %d accepted files equal to their declarations" % len(recs), failures)
    bad = copy.deepcopy(recs)
    v1 = next(r for r in bad if any(len(x["rhs"]) >= 2 and x["rhs"][0] != x["rhs"][1] for x in r["g"]["rules"]))
    x = next(x for x in v1["g"]["rules"] if len(x["rhs"]) >= 2 and x["rhs"][0] != x["rhs"][1])
    x["rhs"][0], x["rhs"][1] = x["rhs"][1], x["rhs"][0]
    v2 = next(r for r in bad if r is not v1 and len(r["g"]["nts"]) >= 2)
    v2["g"]["nts"] = v2["g"]["nts"][::-1]
    v3 = next(r for r in bad if r is not v1 and r is not v2)
    v3["kinds"] = v3["kinds"][:-1]
    res = ajudge(bad, "ast_bad.ndjson")
    expect(not res[v1["id"]]["ok"] and "field symbols" in res[v1["id"]]["why"], "AstJudge rejects two swapped field symbols in one production", failures)
    expect(not res[v2["id"]]["ok"] and "nonterminals" in res[v2["id"]]["why"], "AstJudge rejects a reversed nonterminal order", failures)
    expect(not res[v3["id"]]["ok"] and "not a sentence" in res[v3["id"]]["why"], "AstJudge rejects a token sequence that is not a sentence (last token dropped)", failures)
    # ---- tokenizer traces
    srcs = lexer.repo_sources()[:6] + ["start S // é€😀\n#[a(b)] struct S { a: $A }\nterminal T { $A: x::Y<(), z> }\n", "#[(]", "$start x"]
    toks = common.kv("tokenize", [{"id": i, "src": s, "want": ["lexev"]} for i, s in enumerate(srcs)])
    lines = []
    for i, (s, t) in enumerate(zip(srcs, toks)):
        lines += lexer.trace_lines(i, s, t) or []
    p = os.path.join(wd, "lex_good.ndjson")
    write(p, lines)
    acc, _ = tlc_trace("LexTrace", p)
    expect(acc, "LexTrace accepts %d recorded tokenizer events" % len(lines), failures)
    idx = [i for i, e in enumerate(lines) if e["ev"] == "ch" and e["st"] == "Ident"]
    i = idx[len(idx) // 2]
    bad = copy.deepcopy(lines)
    bad[i]["b"] += 1
    pb = os.path.join(wd, "lex_bad.ndjson")
    write(pb, bad)
    acc, line = tlc_trace("LexTrace", pb)
    expect((not acc) and line == i + 1, "LexTrace rejects a corrupted identifier end offset at line %d (rejected at %s)" % (i + 1, line), failures)
    idx = [i for i, e in enumerate(lines) if e["ev"] == "end" and e["t"] == "ok" and e["out"]]
    i = idx[0]
    bad = copy.deepcopy(lines)
    bad[i]["out"][0]["l"] += 1
    write(pb, bad)
    acc, line = tlc_trace("LexTrace", pb)
    expect((not acc) and line == i + 1, "LexTrace rejects a corrupted token length in the returned tokens (line %d, rejected at %s)" % (i + 1, line), failures)
    # ---- Oset histories
    reqs = oset.random_histories("item", 16, 3, 60, rng)
    resps = common.kv("oset", reqs)
    order = oset.order_of("item", 16)
    of = os.path.join(wd, "order.json")
    with open(of, "w") as f:
        f.write(json.dumps({"n": 16, "order": order, "maxlen": 0}) + "\n")
    lines = []
    for q, r in zip(reqs, resps):
        lines.append({"ev": "reset"})
        for op, st in zip(q["ops"], r["steps"]):
            lines.append(dict(st, ev="op", w=op["w"], op=op["op"], args=op["args"], pcmp=st["pcmp"] if st["pcmp"] is not None else 99))
    p = os.path.join(wd, "oset_good.ndjson")
    write(p, lines)
    acc, _ = tlc_trace("OsetTrace", p, {"ORDERFILE": of})
    expect(acc, "OsetTrace accepts %d recorded Oset<StateItem> steps" % len(lines), failures)
    i = [k for k, e in enumerate(lines) if e["ev"] == "op" and len(e["a"]) >= 2][5]
    bad = copy.deepcopy(lines)
    bad[i]["a"][0], bad[i]["a"][1] = bad[i]["a"][1], bad[i]["a"][0]
    pb = os.path.join(wd, "oset_bad.ndjson")
    write(pb, bad)
    acc, line = tlc_trace("OsetTrace", pb, {"ORDERFILE": of})
    expect((not acc) and line == i + 1, "OsetTrace rejects two swapped elements at line %d (rejected at %s)" % (i + 1, line), failures)
    bad = copy.deepcopy(lines)
    bad[i]["cmp"] = -bad[i]["cmp"] if bad[i]["cmp"] else 1
    write(pb, bad)
    acc, line = tlc_trace("OsetTrace", pb, {"ORDERFILE": of})
    expect((not acc) and line == i + 1, "OsetTrace rejects a corrupted cmp result at line %d (rejected at %s)" % (i + 1, line), failures)
    # ---- judged observations: one corrupted table cell / verdict must be judged wrong
    run = common.Run("C17", "quick", 1)
    pipeline.run_real(cases[:12])
    recs = []
    for k, c in enumerate(cases[:12]):
        rec, _ = pipeline.obs_record(k, c)
        if rec:
            recs.append(rec)
    good, _ = pipeline.judge(copy.deepcopy(recs), wd, shards=1)
    expect(all(v["ok"] for v in good.values()), "PipelineJudge accepts the real observations of %d classics" % len(recs), failures)
    bad = copy.deepcopy(recs)
    victim = next(r for r in bad if r["verdict"] == "ok" and r["tables"] and len(r["tables"][0]["action"]) > 2)
    cell = victim["tables"][0]["action"][1][0]
    victim["tables"][0]["action"][1][0] = ["e", 0] if cell[0] != "e" else ["r", 1]
    flipped = next(r for r in bad if r["verdict"] == "conflict")
    flipped["conflict"][0]["items"][1] = flipped["conflict"][0]["items"][0]
    res, _ = pipeline.judge(bad, wd, shards=1)
    expect(not res[victim["id"]]["ok"] and any(w.startswith("C17") for w in res[victim["id"]]["whys"]), "PipelineJudge rejects one flipped ACTION cell (C17)", failures)
    expect(not res[flipped["id"]]["ok"] and any(w.startswith("C11") for w in res[flipped["id"]]["whys"]), "PipelineJudge rejects a conflict witness naming the same item twice (C11)", failures)
    # ---- Numbering.tla: the real automaton is THE normal form; the same automaton with two state numbers exchanged is still
    # the LALR(1) automaton (ok) but no longer in content order (canon = false, drift only)
    expect(all(v.get("canon") is True for v in good.values()), "PipelineJudge finds every real automaton numbered in content order (Numbering.tla)", failures)
    bad = copy.deepcopy(recs)
    ren = next(r for r in bad if r["verdict"] == "ok" and r["machines"] and len(r["machines"][0]["states"]) > 2)
    m = ren["machines"][0]
    sw = {0: 1, 1: 0}
    m["states"][0], m["states"][1] = m["states"][1], m["states"][0]
    m["start"] = sw.get(m["start"], m["start"])
    m["trans"] = [[sw.get(t[0], t[0]), t[1], sw.get(t[2], t[2])] for t in m["trans"]]
    ren["tables"] = []
    res, _ = pipeline.judge(bad, wd, shards=1)
    expect(res[ren["id"]]["ok"] and res[ren["id"]].get("canon") is False,
           "PipelineJudge: two exchanged state numbers leave the automaton correct (ok) but not in content order (canon false)", failures)
    print("%d control(s) failed" % len(failures) if failures else "all controls behaved as expected")
    return 2 if failures else 0
