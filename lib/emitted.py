"""Engine `emitted`: C01 (accepts exactly L(G)), C02 (faithful derivation tree), C03 (first offending token,
no over-consumption).

Design level: MC_Driver explores Driver.tla (the emitted shift/reduce loop over the LALR(1) tables, input supplied by
the environment) for every selected grammar and every input up to n tokens, and checks the outcome against the
parser-free definitions of Cfg.tla and the canonical LR(1) parser.  Every finished run is printed as a prediction.
Conformance (A): each selected grammar is rendered to Kiki text (seeded presentation: struct/enum, named/tuple, `_`
masks, payload types without any derive), pushed through the real generate, the emitted parsers are compiled with
rustc together with generated glue (counting iterator, tree walker that destructures every emitted type exactly) and
run on all strings up to n tokens, twice with different payloads; observed results are compared with the predictions.
Conformance (C): longer seeded random inputs on larger grammars are judged by TLC (DriverJudge).
"""
import itertools, json, os, random, subprocess, time
import common, grammar, pipeline
from common import ToolError, log

PAYLOAD_TYPES = ["u32", "crate::P", "Box<crate::P>", "crate::W<u32>", "()"]

GLUE_PRELUDE = r'''#![allow(warnings)]
use std::cell::Cell;
use std::rc::Rc;
// payload types: deliberately NO derives at all (C05: no trait bounds on payload types)
pub struct P(pub u32);
pub struct W<T>(pub T);
pub trait Pay { fn mk(id: u32) -> Self; fn show(&self) -> String; }
impl Pay for u32 { fn mk(id: u32) -> Self { id } fn show(&self) -> String { format!("#{}", self) } }
impl Pay for P { fn mk(id: u32) -> Self { P(id) } fn show(&self) -> String { format!("#{}", self.0) } }
impl Pay for Box<P> { fn mk(id: u32) -> Self { Box::new(P(id)) } fn show(&self) -> String { format!("#{}", self.0) } }
impl Pay for W<u32> { fn mk(id: u32) -> Self { W(id) } fn show(&self) -> String { format!("#{}", self.0) } }
impl Pay for () { fn mk(_: u32) -> Self { () } fn show(&self) -> String { "()".to_string() } }
/// Counts the calls of next() on the caller's iterator and notices calls after it returned None.
pub struct Counting<I> { inner: I, cnt: Rc<Cell<usize>>, done: Rc<Cell<bool>>, after_end: Rc<Cell<bool>> }
impl<I: Iterator> Iterator for Counting<I> {
    type Item = I::Item;
    fn next(&mut self) -> Option<I::Item> {
        if self.done.get() { self.after_end.set(true); }
        self.cnt.set(self.cnt.get() + 1);
        let r = self.inner.next();
        if r.is_none() { self.done.set(true); }
        r
    }
}
'''


def rust_payload(ty):
    return ty


def walker_src(k, G, pres, walk=True):
    """Rust source of the glue for grammar k: token constructor, error shower, tree walker (exact destructuring),
    and the run function. The walker mirrors Cfg!Tree projected by the presentation (C02, C06).
    walk=False leaves the tree walker out (the tree is printed as `?`): the fallback C01 / C03 use when the emitted types
    do not have the declared shape, so that acceptance and error reporting can still be decided."""
    m = "g%d" % k
    by = grammar.group_rules(G)
    out = []
    ts = pres["ts"]
    # token constructor and shower
    arms = " ".join("%d => %s::Tok::%s(Pay::mk(id))," % (i, m, t[1:]) for i, t in enumerate(ts))
    out.append("fn mk_%s(kind: usize, id: u32) -> %s::Tok { match kind { %s _ => unreachable!() } }" % (m, m, arms))
    arms = " ".join("%s::Tok::%s(p) => { let q: &%s = p; format!(\"%s{}\", Pay::show(q)) }" % (m, t[1:], pres["ttypes"][t], t[1:]) for t in ts)
    if ts:
        out.append("fn showtok_%s(t: &%s::Tok) -> String { match t { %s } }" % (m, m, arms))
    else:
        out.append("fn showtok_%s(t: &%s::Tok) -> String { match *t {} }" % (m, m))

    def field_expr(sym, var):
        if sym in G["ts"]:
            return "{ let q: &%s = %s; Pay::show(q) }" % (pres["ttypes"][sym], var)
        return "{ let b: &Box<%s::%s> = %s; show_%s_%s(&**b) }" % (m, sym, var, m, sym)

    for A in (pres["nts"] if walk else []):
        idxs = by.get(A, [])
        body = []
        is_struct = bool(idxs) and pres["rules"][idxs[0]]["struct"]
        for i in idxs:
            p = pres["rules"][i]
            rhs = G["rules"][i]["rhs"]
            used = [j for j in range(len(rhs)) if p["mask"][j]]
            ctor = "%s::%s" % (m, A) if is_struct else "%s::%s::%s" % (m, A, p["vname"])
            label = A if is_struct else p["vname"]
            if not used:
                pat = ctor
            elif p["style"] == "named":
                pat = ctor + " { " + ", ".join("%s: x%d" % (p["fnames"][j], j) for j in used) + " }"
            else:
                pat = ctor + "(" + ", ".join("x%d" % j for j in used) + ")"
            parts = ", ".join(field_expr(rhs[j], "x%d" % j) for j in used)
            fmt = label + "(" + ",".join("{}" for _ in used) + ")"
            expr = "format!(\"%s\"%s)" % (fmt, (", " + parts) if used else "")
            body.append((pat, expr))
        if is_struct:
            pat, expr = body[0]
            out.append("fn show_%s_%s(v: &%s::%s) -> String { let %s = v; %s }" % (m, A, m, A, pat, expr))
        elif body:
            arms = " ".join("%s => %s," % (pat, expr) for pat, expr in body)
            out.append("fn show_%s_%s(v: &%s::%s) -> String { match v { %s } }" % (m, A, m, A, arms))
        else:
            out.append("fn show_%s_%s(v: &%s::%s) -> String { match *v {} }" % (m, A, m, A))
    start = G["start"]
    out.append('''fn run_%(m)s(toks: &[(usize, u32)]) -> String {
    let v: Vec<%(m)s::Tok> = toks.iter().map(|&(k, id)| mk_%(m)s(k, id)).collect();
    let cnt = Rc::new(Cell::new(0usize)); let done = Rc::new(Cell::new(false)); let ae = Rc::new(Cell::new(false));
    let it = Counting { inner: v.into_iter(), cnt: cnt.clone(), done: done.clone(), after_end: ae.clone() };
    // C06: parse is a plain generic fn over any IntoIterator<Item = Tok> returning Result<Start, Option<Tok>>
    let f: fn(Counting<std::vec::IntoIter<%(m)s::Tok>>) -> Result<%(m)s::%(start)s, Option<%(m)s::Tok>> = %(m)s::parse;
    match std::panic::catch_unwind(std::panic::AssertUnwindSafe(|| f(it))) {
        Ok(Ok(t)) => format!("OK %%s pulled=%%d after_end=%%s", %(show)s, cnt.get(), ae.get()),
        Ok(Err(Some(t))) => format!("ERR %%s pulled=%%d after_end=%%s", showtok_%(m)s(&t), cnt.get(), ae.get()),
        Ok(Err(None)) => format!("ERR None pulled=%%d after_end=%%s", cnt.get(), ae.get()),
        Err(_) => "PANIC".to_string(),
    }
}''' % {"m": m, "start": start, "show": ("show_%s_%s(&t)" % (m, start)) if walk else "{ let _ = &t; \"?\" }"})
    return "\n".join(out).replace("%d", "{}").replace("%s", "{}")


def expected_tree(G, pres, t, ids):
    """The walker's output for the TLC tree t (Cfg!Node/Leaf as JSON) under presentation pres."""
    if t["leaf"]:
        ty = pres["ttypes"][t["sym"]]
        return "()" if ty == "()" else "#%d" % ids[t["pos"] - 1]
    i = t["rule"] - 1
    p = pres["rules"][i]
    A = G["rules"][i]["lhs"]
    label = A if p["struct"] else p["vname"]
    kids = [expected_tree(G, pres, k, ids) for j, k in enumerate(t["kids"]) if p["mask"][j]]
    return label + "(" + ",".join(kids) + ")"


def build_and_run(cases, inputs, wd, walk=True):
    """cases: list of dicts with 'rust', 'G', 'pres'. inputs: list of (case index, [(kind, id)...]).
    Returns (list of output strings, None) or (None, rustc's complaint)."""
    os.makedirs(wd, exist_ok=True)
    main = [GLUE_PRELUDE]
    for k, c in enumerate(cases):
        with open(os.path.join(wd, "g%d.rs" % k), "w") as f:
            f.write(c["rust"])
        main.append("mod g%d;" % k)
        main.append(walker_src(k, c["G"], c["pres"], walk))
    main.append('''fn main() {
    std::panic::set_hook(Box::new(|_| {}));
    use std::io::{BufRead, Write};
    let stdin = std::io::stdin();
    let stdout = std::io::stdout();
    let mut out = stdout.lock();
    for line in stdin.lock().lines() {
        let line = line.unwrap();
        let mut it = line.split_whitespace();
        let g: usize = it.next().unwrap().parse().unwrap();
        let toks: Vec<(usize, u32)> = it.map(|x| { let mut s = x.split(':'); (s.next().unwrap().parse().unwrap(), s.next().unwrap().parse().unwrap()) }).collect();
        let r = match g { %s _ => unreachable!() };
        // one line per input, flushed: when the process dies or stalls the first unanswered input is the culprit
        let _ = writeln!(out, "{}", r);
        let _ = out.flush();
    }
}''' % " ".join("%d => run_g%d(&toks)," % (k, k) for k in range(len(cases))))
    with open(os.path.join(wd, "main.rs"), "w") as f:
        f.write("\n".join(main))
    t0 = time.time()
    p = subprocess.run(["rustc", "--edition", "2021", "-C", "opt-level=0", "-C", "debuginfo=0", "-C", "codegen-units=16",
                        "main.rs", "-o", "runner"], cwd=wd, capture_output=True, text=True, timeout=1800)
    if p.returncode != 0:
        return None, p.stderr
    log("  rustc: %d emitted parsers compiled in %.1fs" % (len(cases), time.time() - t0))
    lines = ["%d " % g + " ".join("%d:%d" % (k, i) for k, i in toks) for g, toks in inputs]
    return run_isolating(os.path.join(wd, "runner"), lines), None


STALL_S = 30          # no answer to one input for this long = the emitted parser hangs on it
MAX_CULPRITS = 8


def run_isolating(exe, lines):
    """Feeds the input lines to the runner. The emitted code is the code under test: when the process dies (abort, stack
    overflow, allocation failure under the address-space limit) or stops answering, the first unanswered input is the
    culprit - it gets the pseudo result "DIED(<status>)" / "HANG" (a C01 violation: parse must terminate without
    panicking) and the runner is restarted on the rest. After MAX_CULPRITS restarts the rest is marked "UNRUN"."""
    import resource, threading, queue as _q

    def limit():
        resource.setrlimit(resource.RLIMIT_AS, (8 << 30, 8 << 30))
    outs = []
    pos = 0
    culprits = 0
    while pos < len(lines):
        if culprits >= MAX_CULPRITS:
            outs += ["UNRUN"] * (len(lines) - pos)
            break
        chunk = lines[pos:]
        p = subprocess.Popen([exe], stdin=subprocess.PIPE, stdout=subprocess.PIPE, stderr=subprocess.DEVNULL, text=True, preexec_fn=limit)
        q = _q.Queue()

        def feed(p=p, chunk=chunk):
            try:
                p.stdin.write("\n".join(chunk) + "\n")
                p.stdin.close()
            except (BrokenPipeError, OSError):
                pass

        def read(p=p, q=q):
            for ln in p.stdout:
                q.put(ln.rstrip("\n"))
            q.put(None)
        threading.Thread(target=feed, daemon=True).start()
        threading.Thread(target=read, daemon=True).start()
        got = 0
        verdict = None
        while got < len(chunk):
            try:
                ln = q.get(timeout=STALL_S)
            except _q.Empty:
                verdict = "HANG"
                p.kill()
                break
            if ln is None:
                p.wait()
                verdict = "DIED(%s)" % p.returncode
                break
            outs.append(ln)
            got += 1
        try:
            p.kill()
        except OSError:
            pass
        p.wait()
        pos += got
        if got < len(chunk):
            outs.append(verdict)
            pos += 1
            culprits += 1
    return outs


def build_and_run_robust(cases, inputs, wd, prop, run):
    """build_and_run with fallbacks for C01 / C03 (C02 keeps the strict form: its instrument IS the exact-shape walker):
    1. without the tree walker; 2. without the grammars rustc names in its complaint (their inputs come back "UNRUN").
    Whether every emitted module compiles is C05's question, whether the types have the declared shape C06's."""
    import re
    o, err = build_and_run(cases, inputs, wd)
    if o is not None or prop == "C02":
        return o, err
    log("  (the exact-shape walker does not compile against the emitted types - C02/C06 territory; running without it)")
    alive = list(range(len(cases)))
    for attempt in range(5):
        idx = {k: n for n, k in enumerate(alive)}
        o, err = build_and_run([cases[k] for k in alive], [(idx[g], t) for g, t in inputs if g in idx], "%s_f%d" % (wd, attempt), walk=False)
        if o is not None:
            it = iter(o)
            return [next(it) if g in idx else "UNRUN" for g, _ in inputs], None
        bad = sorted({alive[int(x)] for x in re.findall(r"\bg(\d+)(?:\.rs|::)", err) if int(x) < len(alive)})
        if not bad:
            break
        log("  (%d emitted module(s) do not compile even with the minimal glue - C05/C06 territory; left out)" % len(bad))
        run.notes["grammars_left_out_because_rustc_rejects_them"] = run.notes.get("grammars_left_out_because_rustc_rejects_them", 0) + len(bad)
        alive = [k for k in alive if k not in bad]
    return None, err


def select_grammars(tier, seed, wd, run):
    """Classics + a seeded sample of the universe(s) + random larger grammars; only those the real generate accepts."""
    rng = random.Random(seed * 7919 + 3)
    pool = []
    gs, r = pipeline.dump_universe("classics", wd)
    run.add_tlc(r)
    pool += [("classics", G) for G in gs]
    gs, r = pipeline.dump_universe("U2", wd)
    run.add_tlc(r)
    n_u = 380 if tier == "quick" else 1500
    pool += [("U2", G) for G in rng.sample(gs, min(len(gs), n_u))]
    for u in ("U3a", "U3b"):
        gs, r = pipeline.dump_universe(u, wd)
        run.add_tlc(r)
        pool += [(u, G) for G in rng.sample(gs, min(len(gs), 120 if tier == "quick" else 500))]
    # larger seeded random grammars (right-hand sides up to 5 symbols, so reduce functions with many fields and `_` masks in
    # every position run) - few terminals keep "all strings up to n" small
    for _ in range(80 if tier == "quick" else 300):
        pool.append(("random", pipeline.random_grammar(rng, max_nts=4, max_ts=2, max_rules=7, max_rhs=5)))
    for _ in range(160 if tier == "quick" else 600):
        G = pipeline.bracket_grammar(rng)
        if len(G["ts"]) <= 3:
            pool.append(("bracket", G))
    # the same small grammars under HOSTILE names: terminals and nonterminals called like the generator's own helpers (the
    # end-of-input kind `Eof` and its fallbacks, State, Node, Action, ...). C05 asks whether such modules compile; here they
    # are RUN: a helper that refers to its preferred name instead of the allocated one compiles and misbehaves
    T_HOSTILE = ["$Eof", "$Eof2", "$State", "$Node", "$Error", "$Terminal", "$Quasiterminal", "$Accept", "$Shift", "$Reduce", "$Err2", "$Some2"]     # no prelude items (C05's precondition)
    N_HOSTILE = ["Node2", "State2", "Action", "RuleKind", "NonterminalKind", "QuasiterminalKind", "S", "Item", "Eof3", "Token", "Self_", "Ok2"]
    base = [G for o, G in pool if o in ("classics", "U2") and len(G["ts"]) <= 3 and len(G["nts"]) <= 4]
    for _ in range(24 if tier == "quick" else 200):
        G = rng.choice(base)
        tmap = dict(zip(G["ts"], rng.sample(T_HOSTILE, len(G["ts"]))))
        nmap = dict(zip(G["nts"], rng.sample(N_HOSTILE, len(G["nts"]))))
        if G["ts"] and rng.random() < 0.5:
            tmap[G["ts"][0]] = "$Eof"
        m = dict(tmap, **nmap)
        if len(set(v.lstrip("$") for v in m.values())) != len(m):
            continue
        H = {"nts": [m[x] for x in G["nts"]], "ts": [m[x] for x in G["ts"]], "start": m[G["start"]],
             "rules": [{"lhs": m[r["lhs"]], "rhs": [m[y] for y in r["rhs"]]} for r in G["rules"]]}
        pool.append(("hostile", H))
    cases = []
    for origin, G in pool:
        pres = grammar.present(G, rng, payload=None)
        pres["ts"] = list(G["ts"]) if origin == "bracket" else pres["ts"]
        for t in pres["ts"]:
            pres["ttypes"][t] = rng.choice(PAYLOAD_TYPES)
        cases.append({"G": G, "pres": pres, "src": grammar.render(G, pres, attrs=False), "origin": origin})
    pipeline.run_real(cases, want=("grammar", "rust"))
    ok = []
    drifted = []
    for c in cases:
        res = c["resp"]["res"]
        if res["t"] == "ok":
            why = grammar.same_grammar(c["G"], c["pres"], c["resp"]["grammar"])
            c["rust"] = res["rust"]
            if why:
                # drift only: the predictions are made from the DECLARED grammar, so a front end that mangles the
                # declarations shows up as a parser that accepts the wrong language / builds the wrong tree
                if not drifted:
                    print("CONFORMANCE-DRIFT the grammar kiki extracted differs from the declared one (%s): %s" % (why, json.dumps(c["src"])[:300]))
                c["origin"] = "classics"      # never sampled away
                drifted.append(c)
            ok.append(c)
    cap = 560 if tier == "quick" else 2600
    # grammars on which the pipeline's end-state judgement (PipelineJudge: verdict, automaton, tables) already disagrees with
    # the specification are the ones whose parsers most likely misbehave: run them for sure. On a correct tree there are none.
    suspicious = []
    try:
        os.makedirs(os.path.join(wd, "pipeline"), exist_ok=True)
        pcases = pipeline.execute("quick", seed, run, os.path.join(wd, "pipeline"))
        for c in pcases:
            j = c.get("judge")
            if j is not None and not j["ok"] and c["resp"]["res"]["t"] == "ok" and len(suspicious) < 80:
                pres = c["pres"]
                if len(pres["ts"]) <= 3 and all(v in ("u32", "()") for v in pres["ttypes"].values()):
                    suspicious.append({"G": c["G"], "pres": pres, "src": c["src"], "origin": "suspicious", "rust": c["resp"]["res"]["rust"]})
    except ToolError as e:
        log("  (pipeline pre-screen skipped: %s)" % str(e)[:200])
    run.notes["suspicious_grammars_from_pipeline_judgement"] = len(suspicious)
    # keep all classics, then fill up
    keep = suspicious + [c for c in ok if c["origin"] in ("classics", "hostile")]
    rest = [c for c in ok if c["origin"] not in ("classics", "hostile")]
    rng.shuffle(rest)
    return keep + rest[:max(0, cap - len(keep))]


def predictions(cases, maxlen, wd, run, tag="mc"):
    """Runs MC_Driver over the cases' grammars; returns per case {"runs": {(w tuple, ended): run}, "skip": lang or None}."""
    gpath = os.path.join(wd, tag + "_grammars.ndjson")
    with open(gpath, "w") as f:
        for k, c in enumerate(cases):
            g = grammar.tla_grammar(dict(c["G"], nts=c["pres"]["nts"], ts=c["pres"]["ts"]))
            g["id"] = k
            f.write(json.dumps(g) + "\n")
    r = common.tlc("MC_Driver", env={"GRAMMARS": gpath, "MAXLEN": maxlen, "PRINT": "1"}, workers=8, timeout=6000,
                   coverage=True, xmx="8g")
    if r.error:
        raise ToolError("MC_Driver reported an error (the specification itself violates C01-C03 or is broken):\n" + r.error)
    run.add_tlc(r)
    cov = r.coverage()
    never = [a for a in ("Setup", "PeekEnd", "Shift", "Reduce", "Accept", "Error") if cov.get(a, (0, 0))[1] == 0]
    if never:
        raise ToolError("MC_Driver: actions never taken: %s" % never)
    preds = [{"runs": {}, "skip": None} for _ in cases]
    for j in r.tagged("RUN"):
        preds[j["id"]]["runs"][(tuple(j["w"]), j["ended"])] = j
    for j in r.tagged("SKIP"):
        preds[j["id"]]["skip"] = {tuple(w) for w in j["lang"]}
    return preds, r


def predicted_for(pred, w):
    """The model's finished run that explains input w: the run whose `taken` is the shortest prefix of w at which the
    parser stopped, or the run that consumed all of w and saw the end."""
    for i in range(len(w) + 1):
        r = pred["runs"].get((tuple(w[:i]), False))
        if r is not None:
            return r
    return pred["runs"].get((tuple(w), True))


def expected_line(c, pred_run, w, ids):
    G, pres = c["G"], c["pres"]
    if pred_run["t"] == "acc":
        return "OK %s pulled=%d after_end=false" % (expected_tree(G, pres, pred_run["tree"], ids), len(w) + 1)
    if pred_run["t"] == "eof":
        return "ERR None pulled=%d after_end=false" % (len(w) + 1)
    at = pred_run["at"]
    sym = w[at - 1]
    ty = pres["ttypes"][sym]
    pay = "()" if ty == "()" else "#%d" % ids[at - 1]
    return "ERR %s%s pulled=%d after_end=false" % (sym[1:], pay, at)


def classify(prop_line_exp, got):
    """Which property a mismatch belongs to."""
    exp = prop_line_exp
    if got == "PANIC" or got == "HANG" or got.startswith("DIED"):
        return "C01"
    if got.startswith("OK") != exp.startswith("OK"):
        return "C01"
    if exp.startswith("OK"):
        e_tree, g_tree = exp.split(" pulled=")[0], got.split(" pulled=")[0]
        return "C02" if e_tree != g_tree else "C03"
    return "C03"


def check(prop, tier, seed):
    run = common.Run(prop, tier, seed)
    wd = common.workdir("emitted_%s_%s" % (prop, tier))
    common.build_harness()
    # the thorough tier once ran 9 000 grammars with inputs of up to 6 tokens: MC_Driver ended in a Java StackOverflowError after
    # 30 minutes (8 workers x 1 GB stacks); it now takes 2 600 grammars with inputs of up to 5 tokens (the depth comes from the longer inputs judged by DriverJudge)
    maxlen = 5
    cases = select_grammars(tier, seed, wd, run)
    log("  %d accepted grammars selected" % len(cases))
    preds, r = predictions(cases, maxlen, wd, run)
    rng = random.Random(seed + 99)
    # inputs: all strings up to maxlen over the declared terminals (capped per grammar), each with two payload assignments
    inputs, meta = [], []
    for k, c in enumerate(cases):
        ts = c["pres"]["ts"]
        n_eff = maxlen
        while n_eff > 0 and sum(len(ts) ** i for i in range(n_eff + 1)) > 400:
            n_eff -= 1
        c["n_eff"] = n_eff
        for n in range(n_eff + 1):
            for w in itertools.product(range(len(ts)), repeat=n):
                for rep in range(2):
                    ids = [rng.randrange(1, 1000000) for _ in w] if rep else [100 + 7 * i for i in range(n)]
                    inputs.append((k, list(zip(w, ids))))
                    meta.append((k, [ts[x] for x in w], ids))
    batch = 500
    outs = []
    for lo in range(0, len(cases), batch):
        sub = cases[lo:lo + batch]
        sub_inputs = [(g - lo, toks) for g, toks in inputs if lo <= g < lo + batch]
        o, err = build_and_run_robust(sub, sub_inputs, os.path.join(wd, "crate_%d" % lo), prop, run)
        if o is None:
            if err.startswith("HANG"):
                run.violation({"kind": "hang", "why": "C01: " + err, "batch": lo})
                return run.finish()
            if prop == "C02":
                # the walker destructures every emitted type exactly as the declarations prescribe; if rustc rejects that, the
                # value parse returns does not have the shape C02 describes
                bad = sorted(set(int(x) for x in __import__("re").findall(r"\bg(\d+)(?:\.rs|::)", err)))
                k = bad[0] if bad else 0
                run.violation({"kind": "walker-does-not-compile", "why": "C02: the value returned by parse cannot be destructured in the shape the declarations prescribe (rustc): " + err[:900],
                               "src": sub[k]["src"] if k < len(sub) else sub[0]["src"], "judged_by": "rustc on the generated exact-shape walker"})
                return run.finish()
            raise ToolError("emitted parsers or glue did not compile / run (C05/C06 territory):\n" + err[:6000])
        outs += o
    shapes = set()
    run.notes["inputs_not_run_after_repeated_crashes"] = sum(1 for g in outs if g == "UNRUN")
    for (k, w, ids), got in zip(meta, outs):
        if got == "UNRUN":
            continue
        c = cases[k]
        pred = preds[k]
        run.evaluations += 1
        if got == "HANG" or got.startswith("DIED"):
            if prop == "C01":
                run.violation(vcase(c, w, ids, "a result (Ok or Err)", got, "C01: the emitted parse function did not terminate normally on this input "
                                    "(HANG = no answer within %d s; DIED(status) = the process was killed: abort, stack overflow or allocation failure)" % STALL_S))
            continue
        if pred["skip"] is not None:
            # generate accepted a grammar the specification says is not LALR(1): no table-based prediction exists;
            # C01 is still decidable from the language itself
            exp_ok = tuple(w) in pred["skip"]
            if got.startswith("OK") != exp_ok and prop == "C01":
                run.violation(vcase(c, w, ids, "sentence" if exp_ok else "non-sentence", got,
                                    "C01: emitted parser of a grammar that is not LALR(1) accepts a non-sentence or rejects a sentence"))
            continue
        pr = predicted_for(pred, w)
        if pr is None:
            raise ToolError("no prediction for input %r of grammar %d" % (w, k))
        exp = expected_line(c, pr, w, ids)
        run.traces += 1
        if got != exp:
            owner = classify(exp, got)
            # a panic where an error report is due is also a wrong error report (C03), not only a failure to terminate (C01)
            if owner == prop or (prop == "C03" and got == "PANIC" and exp.startswith("ERR")):
                run.violation(vcase(c, w, ids, exp, got, "%s: emitted parser disagrees with Driver.tla's prediction" % prop))
        # non-triviality bookkeeping
        if prop == "C01" and pr["t"] == "acc" and len(w) >= 2:
            run.nontrivial.add((k, tuple(w)))
        elif prop == "C02" and pr["t"] == "acc":
            collect_shapes(c, pr["tree"], shapes)
        elif prop == "C03" and pr["t"] in ("err", "eof") and (pr["t"] == "eof" or pr["at"] >= 2):
            run.nontrivial.add((k, pr["t"], pr["at"], tuple(w[:pr["at"]])))
    if prop == "C02":
        run.nontrivial = shapes
        run.rule = ("distinct (rule arity, terminal/nonterminal pattern, used/_ mask, named/tuple/empty, struct/variant) shapes whose reduce "
                    "function ran in an accepted input and whose result was walked field by field")
    elif prop == "C01":
        run.rule = "distinct (grammar, sentence) pairs with a sentence of length >= 2 that the real emitted parser accepted as predicted; evaluations = all (grammar, input, payload assignment) runs"
    else:
        run.rule = "distinct (grammar, error kind, error position, offending prefix) with position >= 2 or end-of-input errors"
    for (k, w, ids), got in list(zip(meta, outs))[:2000:400]:
        run.sample({"grammar_src": cases[k]["src"], "input": w, "payload_ids": ids, "observed": got})
    run.notes["grammars_compiled"] = len(cases)
    run.notes["max_input_len"] = maxlen
    run.exhaustive = True
    run.assumptions = ["TLC 1.8.0 / CommunityModules", "rustc compiles the emitted text faithfully",
                       "payload identity is observed through generated glue (Pay::show) that reads the payload value",
                       "grammars: classics + seeded sample of the universes; inputs: ALL strings up to n tokens (n reduced per grammar when it has many terminals), each with two payload assignments"]
    longer_inputs(prop, tier, seed, run, wd)
    # scale regime: tagged unions of the small grammars (hundreds of states and terminals), oracle lifted by Union.tla
    import scale, sys
    scale.run(prop, tier, seed, cases, preds, run, wd, sys.modules[__name__])
    if prop == "C01" and not os.environ.get("VERIF_SKIP_MC"):
        ru = common.tlc_ok("MC_Union", env={"UNIVERSE": "U1", "SLICE": 2 if tier == "quick" else 12, "MAXLEN": 2 if tier == "quick" else 3},
                           workers=12, timeout=6000)
        run.add_tlc(ru)
        run.notes["MC_Union"] = {"pairs": ru.distinct}
    if not os.environ.get("VERIF_SKIP_MC"):
        liveness(tier, run, wd, cases)
    return run.finish()


def collect_shapes(c, t, shapes):
    if t["leaf"]:
        return
    i = t["rule"] - 1
    p = c["pres"]["rules"][i]
    rhs = c["G"]["rules"][i]["rhs"]
    shapes.add((tuple("T" if x in c["G"]["ts"] else "N" for x in rhs), tuple(p["mask"]), p["style"], p["struct"]))
    for k in t["kids"]:
        collect_shapes(c, k, shapes)


def vcase(c, w, ids, exp, got, why):
    return {"kind": "emitted-run", "why": why, "src": c["src"], "grammar": c["G"], "pres": c["pres"],
            "input": w, "payload_ids": ids, "expected": exp, "observed": got,
            "judged_by": "spec/Driver.tla via MC_Driver (oracles: Cfg!RefOutcome, LR1!CanonStop, Cfg!IsTree)"}


def liveness(tier, run, wd, cases):
    """The parse loop terminates: liveness check of Driver.tla on the classics and a slice of the sample."""
    sub = [c for c in cases if c["origin"] == "classics"] + [c for c in cases if c["origin"] != "classics"][:60]
    gpath = os.path.join(wd, "live_grammars.ndjson")
    with open(gpath, "w") as f:
        for k, c in enumerate(sub):
            g = grammar.tla_grammar(dict(c["G"], nts=c["pres"]["nts"], ts=c["pres"]["ts"]))
            g["id"] = k
            f.write(json.dumps(g) + "\n")
    r = common.tlc_ok("MC_Driver", cfg="MC_DriverLive", env={"GRAMMARS": gpath, "MAXLEN": 3, "PRINT": "0"}, workers=4, timeout=3000)
    run.add_tlc(r)
    run.notes["liveness"] = {"grammars": len(sub), "distinct": r.distinct}


def random_sentence_like(G, rng, maxlen):
    """Random derivation from the start symbol (bounded), possibly corrupted: long inputs that are mostly sentences."""
    by = grammar.group_rules(G)
    out = []
    budget = [400]

    def expand(sym, depth):
        budget[0] -= 1
        if len(out) > maxlen or depth > 40 or budget[0] < 0:
            return
        if sym in G["ts"]:
            out.append(sym)
            return
        idxs = by.get(sym, [])
        if not idxs:
            return
        if depth > 12:
            idxs = sorted(idxs, key=lambda i: len(G["rules"][i]["rhs"]))[:1]
        i = rng.choice(idxs)
        for x in G["rules"][i]["rhs"]:
            expand(x, depth + 1)
    expand(G["start"], 0)
    w = out[:maxlen]
    if G["ts"] and rng.random() < 0.5 and w:
        j = rng.randrange(len(w))
        op = rng.randrange(3)
        if op == 0:
            w[j] = rng.choice(G["ts"])
        elif op == 1:
            del w[j]
        else:
            w.insert(j, rng.choice(G["ts"]))
    return w


def longer_inputs(prop, tier, seed, run, wd):
    """(C) larger seeded random grammars and longer inputs (up to 40 tokens): observed results are judged by TLC
    (DriverJudge: the LALR(1) driver of the specification, canonical LR(1) stop position, IsSentence chart)."""
    rng = random.Random(seed * 31 + 5)
    cands = []
    gs, _ = pipeline.dump_universe("classics", wd)
    for G in gs:
        cands.append(("classics", G))
    for _ in range(60 if tier == "quick" else 600):
        cands.append(("random", pipeline.random_grammar(rng, max_nts=5, max_ts=4, max_rules=10, max_rhs=3)))
    # WIDE rules: 10-14 fields in one fieldset (two-digit field indices), nested once so that boxed subtrees occur too
    for _ in range(12 if tier == "quick" else 120):
        k = rng.randint(10, 14)
        ts = ["$Ta", "$Tb"]
        row = [rng.choice(ts + ts + ["Cell"]) for _ in range(k)]
        cands.append(("wide", {"nts": ["Row", "Cell"], "ts": ts, "start": "Row",
                               "rules": [{"lhs": "Row", "rhs": row}, {"lhs": "Cell", "rhs": ["$Tb", "$Ta"]}, {"lhs": "Cell", "rhs": ["$Ta"]}]}))
    # one-dimension scale: a rule with 40-130 fields; a chain of 150 / 400 unit productions; list grammars (right recursive =
    # deep stack, left recursive, nested brackets) that get inputs of thousands of tokens below
    ts = ["$Ta", "$Tb"]
    for k in ((40, 101) if tier == "quick" else (40, 101, 130, 130)):
        row = [rng.choice(ts + ts + ["Cell"]) for _ in range(k)]
        cands.append(("wide", {"nts": ["Row", "Cell"], "ts": ts, "start": "Row",
                               "rules": [{"lhs": "Row", "rhs": row}, {"lhs": "Cell", "rhs": ["$Tb", "$Ta"]}, {"lhs": "Cell", "rhs": ["$Ta"]}]}))
    n = 150 if tier == "quick" else 400
    cands.append(("wide", {"nts": ["C%d" % i for i in range(n)], "ts": ts, "start": "C0",
                           "rules": [{"lhs": "C%d" % i, "rhs": ["C%d" % (i + 1)]} for i in range(n - 1)] + [{"lhs": "C%d" % (n - 1), "rhs": ["$Ta", "$Tb"]}]}))
    LISTS = [("list-right", {"nts": ["L"], "ts": ts, "start": "L", "rules": [{"lhs": "L", "rhs": []}, {"lhs": "L", "rhs": ["$Ta", "L"]}]}),
             ("list-left", {"nts": ["L"], "ts": ts, "start": "L", "rules": [{"lhs": "L", "rhs": []}, {"lhs": "L", "rhs": ["L", "$Ta"]}]}),
             ("list-nest", {"nts": ["L"], "ts": ts, "start": "L", "rules": [{"lhs": "L", "rhs": []}, {"lhs": "L", "rhs": ["$Ta", "L", "$Tb"]}]})]
    cands += LISTS
    cases = []
    for origin, G in cands:
        pres = grammar.present(G, rng, payload=None)
        for t in pres["ts"]:
            pres["ttypes"][t] = rng.choice(PAYLOAD_TYPES[:4])
        cases.append({"G": G, "pres": pres, "src": grammar.render(G, pres, attrs=False), "origin": origin})
    pipeline.run_real(cases, want=("grammar", "rust"))
    ok = []
    for c in cases:
        if c["resp"]["res"]["t"] == "ok":
            c["rust"] = c["resp"]["res"]["rust"]
            ok.append(c)
    ok = [c for c in ok if c["origin"] == "wide" or c["origin"].startswith("list-")] + [c for c in ok if c["origin"] != "wide" and not c["origin"].startswith("list-")][:120 if tier == "quick" else 800]
    inputs, meta = [], []
    per = 12 if tier == "quick" else 40
    N = 1500 if tier == "quick" else 4000
    __import__("sys").setrecursionlimit(100000)
    for k, c in enumerate(ok):
        if c["origin"].startswith("list-"):
            # thousands of tokens: a sentence, the sentence cut short, and one foreign token in the middle
            a, b = "$Ta", "$Tb"
            body = [a] * N if c["origin"] != "list-nest" else [a] * (N // 2) + [b] * (N // 2)
            variants = [body, body[:-1] if c["origin"] == "list-nest" else body + [a], body[:N // 3] + [b] + body[N // 3:]]
            for w in variants:
                ids = [rng.randrange(1, 1000000) for _ in w]
                inputs.append((k, [(c["pres"]["ts"].index(x), i) for x, i in zip(w, ids)]))
                meta.append((k, w, ids))
            continue
        G = dict(c["G"], ts=c["pres"]["ts"])
        for _ in range(per):
            w = random_sentence_like(G, rng, 40)
            ids = [rng.randrange(1, 1000000) for _ in w]
            inputs.append((k, [(c["pres"]["ts"].index(x), i) for x, i in zip(w, ids)]))
            meta.append((k, w, ids))
    outs, err = build_and_run_robust(ok, inputs, os.path.join(wd, "crate_long"), prop, run)
    if outs is None:
        if err.startswith("HANG"):
            run.violation({"kind": "hang", "why": "C01: " + err})
            return
        if prop == "C02":
            bad = sorted(set(int(x) for x in __import__("re").findall(r"\bg(\d+)(?:\.rs|::)", err)))
            k = bad[0] if bad and bad[0] < len(ok) else 0
            run.violation({"kind": "does-not-compile", "why": "C02: no value of the declared shape can be obtained: rustc rejects the emitted parser or the exact-shape walker: " + err[:900],
                           "src": ok[k]["src"], "judged_by": "rustc on the emitted module plus generated exact-shape walker"})
            return
        raise ToolError("emitted parsers or glue did not compile / run:\n" + err[:6000])
    # hand the observations to TLC
    keep = [i for i, g in enumerate(outs) if g != "UNRUN"]
    meta, outs = [meta[i] for i in keep], [outs[i] for i in keep]
    recs = []
    for n, ((k, w, ids), got) in enumerate(zip(meta, outs)):
        c = ok[k]
        kind, at, pulled, tree = parse_observed(got, c, w, ids)
        recs.append({"id": n, "gid": k, "w": w, "t": kind, "at": at, "pulled": pulled})
    gpath = os.path.join(wd, "long_grammars.ndjson")
    with open(gpath, "w") as f:
        for k, c in enumerate(ok):
            g = grammar.tla_grammar(dict(c["G"], nts=c["pres"]["nts"], ts=c["pres"]["ts"]))
            g["id"] = k
            f.write(json.dumps(g) + "\n")
    opath = os.path.join(wd, "long_obs.ndjson")
    with open(opath, "w") as f:
        for rec in sorted(recs, key=lambda r: r["gid"]):
            f.write(json.dumps(rec) + "\n")
    r = common.tlc("DriverJudge", env={"GRAMMARS": gpath, "OBS": opath}, workers=1, timeout=6000, xmx="4g")
    if r.error:
        raise ToolError("DriverJudge failed:\n" + r.error)
    run.add_tlc(r)
    verdicts = {j["id"]: j for j in r.tagged("DJUDGE")}
    if len(verdicts) != len(recs):
        raise ToolError("DriverJudge judged %d of %d" % (len(verdicts), len(recs)))
    nlong = 0
    for n, ((k, w, ids), got) in enumerate(zip(meta, outs)):
        j = verdicts[n]
        run.evaluations += 1
        run.traces += 1
        if len(w) >= 8:
            nlong += 1
        if got.endswith("after_end=true") and prop == "C03":
            run.violation(vcase(ok[k], w, ids, "no next() after the iterator returned None", got, "C03: the parser called next() again after the end of input"))
        if not j["ok"] and j["why"].startswith(prop + ":"):
            run.violation(vcase(ok[k], w, ids, json.dumps(j["expect"]), got, j["why"]))
        if j["ok"] and j["expect"]["t"] == "acc" and prop == "C02":
            exp_tree = expected_tree(ok[k]["G"], ok[k]["pres"], j["tree"], ids)
            got_tree = got.split(" pulled=")[0][3:]
            if got_tree != exp_tree:
                run.violation(vcase(ok[k], w, ids, "OK " + exp_tree, got, "C02: on a longer input the returned value is not the derivation tree of the input"))
            else:
                run.nontrivial.add(("long-tree", k, len(w)))
    run.notes["long_inputs_judged"] = len(recs)
    run.notes["long_inputs_len_ge_8"] = nlong


def parse_observed(got, c, w, ids):
    """Observed runner line -> (kind, at, pulled, tree string). `at` is recovered from the payload id of the returned token
    (the ORIGINAL token object is identified by its payload), falling back to the pull count for unit payloads."""
    if got == "PANIC" or got == "HANG" or got.startswith("DIED"):
        return "panic", 0, 0, ""
    head, rest = got.split(" pulled=")
    pulled = int(rest.split(" ")[0])
    if head.startswith("OK "):
        return "acc", 0, pulled, head[3:]
    tok = head[4:]
    if tok == "None":
        return "eof", len(w) + 1, pulled, ""
    if "#" in tok:
        pid = int(tok.split("#")[1])
        name = "$" + tok.split("#")[0]
        pos = [i + 1 for i, x in enumerate(ids) if x == pid and w[i] == name]
        at = pos[0] if len(pos) == 1 else -1
    else:
        name = "$" + tok[:-2]
        at = pulled if 1 <= pulled <= len(w) and w[pulled - 1] == name else -1
    return "err", at, pulled, ""


def replay(prop, path):
    case = json.load(open(path))
    pres = case["pres"]
    pres["rules"] = {int(k): v for k, v in pres["rules"].items()}
    c = {"G": case["grammar"], "pres": pres, "src": case["src"], "origin": "replay"}
    run = common.Run(prop, "quick", case.get("seed", 1))
    wd = common.workdir("emitted_replay_%s" % prop)
    common.build_harness()
    pipeline.run_real([c], want=("grammar", "rust"))
    if c["resp"]["res"]["t"] != "ok":
        log("generate no longer accepts this grammar: %s" % json.dumps(c["resp"]["res"])[:300])
        return 0
    c["rust"] = c["resp"]["res"]["rust"]
    w, ids = case["input"], case["payload_ids"]
    if case.get("kind") == "emitted-run-scale":
        # the expected line was lifted from the component's prediction (Union.tla) when the case was found; the grammar is far
        # too large for MC_Driver, so the replay compares the real parser's answer with that line
        outs, err = build_and_run_robust([c], [(0, [(pres["ts"].index(x), i) for x, i in zip(w, ids)])], os.path.join(wd, "crate"), prop, run)
        if outs is None:
            raise ToolError(err[:3000])
        log("expected: %s\nobserved: %s" % (case["expected"], outs[0]))
        if outs[0] != case["expected"]:
            print("VIOLATION property=%s replay=%s" % (prop, path))
            return 1
        return 0
    preds, _ = predictions([c], max(1, len(w)), wd, run, tag="replay")
    outs, err = build_and_run([c], [(0, [(pres["ts"].index(x), i) for x, i in zip(w, ids)])], os.path.join(wd, "crate"))
    if outs is None:
        raise ToolError(err[:3000])
    if preds[0]["skip"] is not None:
        exp_ok = tuple(w) in preds[0]["skip"]
        bad = outs[0].startswith("OK") != exp_ok
        exp = "sentence" if exp_ok else "non-sentence"
    else:
        exp = expected_line(c, predicted_for(preds[0], w), w, ids)
        bad = outs[0] != exp
    if outs[0] == "HANG" or outs[0].startswith("DIED"):
        bad = prop == "C01"
    log("expected: %s\nobserved: %s" % (exp, outs[0]))
    if bad:
        print("VIOLATION property=%s replay=%s" % (prop, path))
        return 1
    return 0
