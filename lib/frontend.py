"""Engine `frontend`: C09 (files are accepted exactly per the Kiki grammar; parse errors are exact).

Design level: MC_Frontend - Driver.tla over the LALR(1) tables of the grammar of record (KikiSyntax.tla), every parser
configuration reachable within MAXLEN tokens x every next token; the tables extracted from the checked-in parser.rs
are judged by TLC to be exactly those tables up to renumbering (TablesMatch); short inputs against the parser-free
oracle.
Conformance (A): for every explored configuration TLC prints a shortest witness input and the predicted outcome; the
driver renders the token kinds to source text (seeded lexemes, seeded layout with multi-byte comments so byte offsets
are non-trivial), calls the real generate and compares: "accepts" => no Lex/Parse error; "error at token i" =>
KikiErr::Parse(start_i, text_i, end_i) with exactly the rendered span and text; "ends too early" => Parse(len, "", len).
Drift check: the rules kiki extracts from parser.kiki must equal KikiSyntax!KikiG.
"""
import json, os, random
import common, grammar
from common import ToolError, log

IDENTS = ["Foo", "bar", "X", "a1", "_x", "Opt_Items", "T9", "__", "e", "Node", "S", "é_is_not_here".replace("é", "e")]
LEXEMES = {
    "$Underscore": lambda r: "_",
    "$Ident": lambda r: r.choice(IDENTS),
    "$TerminalIdent": lambda r: "$" + r.choice(["A", "Tok", "x9", "_t", "LParen"]),
    "$OuterAttribute": lambda r: r.choice(["#[a]", "#[derive(Debug, Clone)]", "#[doc = \"é€😀\"]", "#[x({[]})]", "#[ ]", "#[€]", "#[日本語]",
                                           "#[é(😀)]", "#[serde(rename = \"名前\")]"]),
    "$StartKw": lambda r: "start", "$StructKw": lambda r: "struct", "$EnumKw": lambda r: "enum", "$TerminalKw": lambda r: "terminal",
    "$Colon": lambda r: ":", "$DoubleColon": lambda r: "::", "$Comma": lambda r: ",",
    "$LParen": lambda r: "(", "$RParen": lambda r: ")", "$LCurly": lambda r: "{", "$RCurly": lambda r: "}",
    "$LAngle": lambda r: "<", "$RAngle": lambda r: ">",
}
SEPS = [" ", "  ", "\n", "\t", "\r\n", " ", "　", " // c\n", " //é€😀 multi-byte comment\n", "\n\n", " //\n"]


def needs_sep(a, b):
    """Would the empty separator glue the lexemes a b into different tokens?"""
    wordy = lambda s: s[-1].isalnum() or s[-1] == "_"
    wordy0 = lambda s: s[0].isalnum() or s[0] == "_"
    if wordy(a) and wordy0(b):
        return True
    if a.endswith(":") and b.startswith(":"):
        return True
    if a.endswith("/") or b.startswith("/"):
        return True
    if a == "$":
        return True
    return False


def render(kinds, rng):
    """Returns (source text, [(start byte, end byte, text)] per token)."""
    out = ""
    spans = []
    if rng.random() < 0.5:
        out += rng.choice(SEPS)
    prev = None
    for k in kinds:
        lex = LEXEMES[k](rng)
        if prev is not None:
            sep = rng.choice(SEPS) if (rng.random() < 0.8 or needs_sep(prev, lex)) else ""
            out += sep
        start = len(out.encode("utf-8"))
        out += lex
        spans.append((start, start + len(lex.encode("utf-8")), lex))
        prev = lex
    r = rng.random()
    if r < 0.3:
        out += rng.choice(SEPS)
    elif r < 0.4:
        out += " // trailing comment without newline é"
    return out, spans


def extract_frontend_tables():
    """Tables of the checked-in front-end parser (kiki/src/parser.rs). The column order (terminals / nonterminals in
    declaration order of parser.kiki) comes from a snapshot taken on the pinned tree, NOT from the code under test: a tree
    whose front end mangles declarations must not corrupt the oracle. What the current tree extracts from parser.kiki is
    returned separately and only feeds the drift diagnostic."""
    snap = json.load(open(os.path.join(os.path.dirname(__file__), "parser_kiki_snapshot.json")))
    src = open("/repo/kiki/src/parser.kiki", encoding="utf-8").read()
    r = common.kv("gen", [{"id": 0, "src": src, "want": ["grammar"]}])[0]
    seen = r.get("grammar")
    text = open("/repo/kiki/src/parser.rs", encoding="utf-8").read()
    t = grammar.extract_tables(text, snap["ts"], snap["nts"])
    return snap, t, seen


def vcase(why, kinds, src, spans, pred, obs):
    return {"kind": "frontend", "why": "C09: " + why, "token_kinds": kinds, "src": src, "spans": spans, "predicted": pred, "observed": obs,
            "judged_by": "spec/MC_Frontend.tla (Driver.tla over LR1 tables of KikiSyntax!KikiG)"}


def check_one(kinds, pred, src, spans, res):
    """pred: {t: acc|err|eof, at}. Returns None or reason."""
    if res["t"] == "panic":
        return "generate panicked: %s at %s" % (res.get("msg"), res.get("loc"))
    if res["t"] == "hang":
        return "generate did not return"
    is_lex = res["t"] == "err" and res["err"]["v"] == "Lex"
    is_parse = res["t"] == "err" and res["err"]["v"] == "Parse"
    if is_lex:
        return "lexical error on a text rendered from valid tokens (rendering or tokenizer problem): %r" % res["err"]
    if pred["t"] == "acc":
        if is_parse:
            return "a sentence of the Kiki grammar is rejected with %r" % res["err"]
        return None
    if not is_parse:
        return "a non-sentence passes the front end (result: %s)" % json.dumps(res)[:200]
    e = res["err"]
    if pred["t"] == "eof":
        n = len(src.encode("utf-8"))
        if (e["start"], e["text"], e["end"]) != (n, "", n):
            return "file stops too early: expected Parse(%d, \"\", %d), got %r" % (n, n, e)
        return None
    s, t, txt = spans[pred["at"] - 1]
    if (e["start"], e["text"], e["end"]) != (s, txt, t):
        return "expected Parse(%d, %r, %d) for token %d (%s), got Parse(%d, %r, %d)" % (s, txt, t, pred["at"], kinds[pred["at"] - 1], e["start"], e["text"], e["end"])
    return None


def check(prop, tier, seed):
    run = common.Run(prop, tier, seed)
    wd = common.workdir("frontend_%s" % tier)
    common.build_harness()
    rng = random.Random(seed * 23 + 11)
    kg, tables, seen = extract_frontend_tables()
    tpath = os.path.join(wd, "parser_rs_tables.json")
    with open(tpath, "w") as f:
        f.write(json.dumps(tables) + "\n")
    maxlen = 22 if tier == "quick" else 30
    r = common.tlc("MC_Frontend", env={"MAXLEN": maxlen, "TABLES": tpath}, workers=8, timeout=6000, xmx="8g", coverage=True)
    if r.error:
        raise ToolError("MC_Frontend failed (specification-level violation or TLC error):\n" + r.error)
    run.add_tlc(r)
    tm = r.tagged("FRONTEND-TABLES")
    if len(tm) != 1:
        raise ToolError("MC_Frontend did not report the table comparison")
    run.evaluations += 1
    if not tm[0]["ok"]:
        run.violation({"kind": "frontend-tables", "why": "C09: the tables checked in as kiki/src/parser.rs are not the LALR(1) tables of the published Kiki grammar: " + tm[0]["why"],
                       "judged_by": "LR1!TablesMatch(KikiSyntax!KikiG, tables extracted from parser.rs)"})
    run.notes["parser_rs_tables"] = tm[0]
    # grammar-of-record drift
    gor = r.tagged("GRAMMAR-OF-RECORD")[0]
    rec = [(x["lhs"], x["rhs"]) for x in gor["rules"]]
    snap_rules = [(x["lhs"], x["rhs"]) for x in kg["rules"]]
    if kg["start"] != gor["start"] or sorted(map(json.dumps, snap_rules)) != sorted(map(json.dumps, rec)):
        raise ToolError("lib/parser_kiki_snapshot.json and spec/KikiSyntax.tla disagree about the grammar of record")
    mine = [(x["lhs"], x["rhs"]) for x in seen["rules"]] if seen else []
    if seen is None or seen["start"] != gor["start"] or sorted(map(json.dumps, mine)) != sorted(map(json.dumps, rec)):
        print("CONFORMANCE-DRIFT property=C09 kiki/src/parser.kiki no longer declares the grammar of record (spec/KikiSyntax.tla); "
              "C09 is judged against the published grammar in the specification")
        run.notes["grammar_of_record_drift"] = True
    runs = r.tagged("RUN")
    # replay: each witness rendered (1 rendering quick, 3 thorough)
    reps = 1 if tier == "quick" else 8
    batch = []
    for j in runs:
        for _ in range(reps):
            src, spans = render(j["w"], rng)
            batch.append((j, src, spans))
    resps = common.kv("gen", [{"id": i, "src": s, "want": []} for i, (_, s, _) in enumerate(batch)], timeout=3000)
    for (j, src, spans), o in zip(batch, resps):
        run.evaluations += 1
        run.traces += 1
        why = check_one(j["w"], j, src, spans, o["res"])
        if why:
            run.violation(vcase(why, j["w"], src, spans, {"t": j["t"], "at": j["at"]}, o["res"]))
        if j["t"] == "err":
            run.nontrivial.add(("err", j["w"][j["at"] - 1], tuple(j["w"][max(0, j["at"] - 3):j["at"] - 1])))
        else:
            run.nontrivial.add((j["t"], tuple(j["w"][-2:])))
    mid = batch[len(batch) // 2]
    run.sample({"token_kinds": mid[0]["w"], "src": mid[1], "predicted": {"t": mid[0]["t"], "at": mid[0]["at"]}})
    # longer seeded random files: valid skeletons with one corruption, judged by TLC over the spec tables (DriverJudge with the grammar of record)
    long_cases(run, tier, rng, wd, kg)
    ast_conformance(run, tier, rng, wd)
    run.rule = ("distinct (outcome, offending token kind, two preceding token kinds) classes among the replayed witnesses of all parser configurations "
                "reachable within MAXLEN tokens; evaluations = rendered sources run through the real generate")
    run.notes["maxlen"] = maxlen
    run.notes["configurations"] = r.distinct
    run.exhaustive = True
    run.assumptions = ["TLC/CommunityModules", "the rendering of token kinds to lexemes and layout (a Lex error on a rendered text is reported, never ignored)",
                       "grammar of record = spec/KikiSyntax.tla, compared with parser.kiki on every run"]
    return run.finish()


def random_valid_tokens(rng):
    """A random syntactically valid file as token kinds (written directly from the published grammar's shape)."""
    out = []

    def attrs():
        for _ in range(rng.choice([0, 0, 1, 2])):
            out.append("$OuterAttribute")

    def sym():
        out.append(rng.choice(["$Ident", "$TerminalIdent"]))

    def fieldset():
        k = rng.random()
        if k < 0.25:
            return
        if k < 0.6:
            out.append("$LCurly")
            for _ in range(rng.randint(1, 4)):
                out.append(rng.choice(["$Ident", "$Underscore"]))
                out.append("$Colon")
                sym()
            out.append("$RCurly")
        else:
            out.append("$LParen")
            for _ in range(rng.randint(1, 4)):
                if rng.random() < 0.3:
                    out.extend(["$Underscore", "$Colon"])
                sym()
            out.append("$RParen")

    def path():
        out.append("$Ident")
        for _ in range(rng.choice([0, 0, 1, 2])):
            out.extend(["$DoubleColon", "$Ident"])

    def ty(depth):
        k = rng.random()
        if k < 0.25:
            out.extend(["$LParen", "$RParen"])
        elif k < 0.65 or depth > 2:
            path()
        else:
            path()
            out.append("$LAngle")
            for i in range(rng.randint(1, 3)):
                if i:
                    out.append("$Comma")
                ty(depth + 1)
            out.append("$RAngle")
    for _ in range(rng.randint(1, 6)):
        k = rng.random()
        if k < 0.2:
            out.extend(["$StartKw", "$Ident"])
        elif k < 0.45:
            attrs()
            out.extend(["$StructKw", "$Ident"])
            fieldset()
        elif k < 0.75:
            attrs()
            out.extend(["$EnumKw", "$Ident", "$LCurly"])
            for _ in range(rng.randint(0, 4)):
                out.append("$Ident")
                fieldset()
            out.append("$RCurly")
        else:
            attrs()
            out.extend(["$TerminalKw", "$Ident", "$LCurly"])
            for _ in range(rng.randint(0, 4)):
                out.extend(["$TerminalIdent", "$Colon"])
                ty(0)
            out.append("$RCurly")
    return out


def long_cases(run, tier, rng, wd, kg):
    n = 150 if tier == "quick" else 20000
    cases = []
    for _ in range(n):
        w = random_valid_tokens(rng)
        if rng.random() < 0.6 and w:
            j = rng.randrange(len(w))
            op = rng.randrange(3)
            if op == 0:
                w[j] = rng.choice(list(LEXEMES))
            elif op == 1:
                del w[j]
            else:
                w.insert(j, rng.choice(list(LEXEMES)))
        src, spans = render(w, rng)
        cases.append((w, src, spans))
    resps = common.kv("gen", [{"id": i, "src": s, "want": []} for i, (_, s, _) in enumerate(cases)], timeout=3000)
    # observations for TLC
    gpath = os.path.join(wd, "kiki_grammar.ndjson")
    with open(gpath, "w") as f:
        g = {"id": 0, "nts": kg["nts"], "ts": kg["ts"], "start": kg["start"], "rules": [{"lhs": x["lhs"], "rhs": x["rhs"]} for x in kg["rules"]]}
        f.write(json.dumps(g) + "\n")
    recs = []
    for i, ((w, src, spans), o) in enumerate(zip(cases, resps)):
        res = o["res"]
        if res["t"] in ("panic", "hang") or (res["t"] == "err" and res["err"]["v"] == "Lex"):
            run.violation(vcase("generate failed on a rendered token sequence: %s" % json.dumps(res)[:200], w, src, spans, None, res))
            continue
        if res["t"] == "err" and res["err"]["v"] == "Parse":
            e = res["err"]
            n_bytes = len(src.encode("utf-8"))
            if (e["start"], e["text"], e["end"]) == (n_bytes, "", n_bytes):
                kind, at = "eof", len(w) + 1
            else:
                hit = [k + 1 for k, (s, t, txt) in enumerate(spans) if (s, txt, t) == (e["start"], e["text"], e["end"])]
                if len(hit) != 1:
                    run.violation(vcase("the parse error %r does not carry the span and text of any token" % e, w, src, spans, None, res))
                    continue
                kind, at = "err", hit[0]
            recs.append({"id": i, "gid": 0, "w": w, "t": kind, "at": at, "pulled": at if kind == "err" else len(w) + 1})
        else:
            recs.append({"id": i, "gid": 0, "w": w, "t": "acc", "at": 0, "pulled": len(w) + 1})
    opath = os.path.join(wd, "frontend_long_obs.ndjson")
    with open(opath, "w") as f:
        for rec in recs:
            f.write(json.dumps(rec) + "\n")
    r = common.tlc("DriverJudge", env={"GRAMMARS": gpath, "OBS": opath}, workers=1, timeout=6000, xmx="4g")
    if r.error:
        raise ToolError("DriverJudge (frontend) failed:\n" + r.error)
    run.add_tlc(r)
    verdicts = {j["id"]: j for j in r.tagged("DJUDGE")}
    for rec in recs:
        j = verdicts.get(rec["id"])
        if j is None:
            raise ToolError("DriverJudge skipped a record")
        run.evaluations += 1
        run.traces += 1
        if not j["ok"]:
            w, src, spans = cases[rec["id"]]
            run.violation(vcase("on a longer file the front end %s (specification expects %s)" % (j["why"].split(": ", 1)[1], json.dumps(j["expect"])),
                                w, src, spans, j["expect"], {"t": rec["t"], "at": rec["at"]}))
    run.notes["long_files_judged"] = len(recs)


FIXED_SPELLING = {"Underscore": "_", "StartKw": "start", "StructKw": "struct", "EnumKw": "enum", "TerminalKw": "terminal", "Colon": ":",
                  "DoubleColon": "::", "Comma": ",", "LParen": "(", "RParen": ")", "LCurly": "{", "RCurly": "}", "LAngle": "<", "RAngle": ">"}


def ast_records(srcs):
    """AstJudge records (tokens of the real tokenizer + the validated file of the real pipeline) for the accepted ones of srcs."""
    import re
    resps = common.kv("gen", [{"id": i, "src": s, "want": ["tokens", "grammar"]} for i, s in enumerate(srcs)], timeout=3000)
    recs = []
    for i, (s, o) in enumerate(zip(srcs, resps)):
        if "grammar" not in o or "tokens" not in o:
            continue
        g = o["grammar"]
        rec_g = {"start": g["start"], "tenum": g["tenum"], "tattrs": g["tattrs"], "ts": g["ts"], "nts": g["nts"],
                 "ttypes": [re.findall(r"[A-Za-z_][A-Za-z0-9_]*|::|[<>,()]", t) for t in g["ttypes"]],
                 "rules": [{"lhs": x["lhs"], "ctor": x["ctor"], "vname": x["vname"] or "", "attrs": x["attrs"], "style": x["style"],
                            "rhs": x["rhs"], "mask": x["mask"], "fnames": [n or "" for n in x["fnames"]]} for x in g["rules"]]}
        recs.append({"id": i, "kinds": ["$" + t["k"] for t in o["tokens"]],
                     "tx": [t["text"] if t["text"] is not None else FIXED_SPELLING[t["k"]] for t in o["tokens"]], "g": rec_g})
    return recs


def ast_conformance(run, tier, rng, wd):
    """(C) for the stages tokens -> tree -> abstract file -> validated file: for accepted files the tokens of the real
    tokenizer and the validated file the real pipeline built are handed to TLC (AstJudge), which parses the kinds with
    the LALR(1) tables of the grammar of record, reads the declarations off the tree (Ast.tla) and compares. A token
    sequence of an accepted file that is not a sentence is a C09 violation; any other difference is reported as drift
    (the properties that depend on it - C01, C02, C06, C12, C13, C17 - decide for themselves against the declared
    grammar)."""
    import re
    import pipeline, paytypes
    srcs = []
    for path in pipeline.repo_grammar_files():
        srcs.append(open(path, encoding="utf-8").read())
    for _ in range(120 if tier == "quick" else 4000):
        G = pipeline.random_grammar(rng, max_nts=5, max_ts=4, max_rules=9, max_rhs=5)
        pres = grammar.present(G, rng)
        srcs.append(grammar.render(G, pres))
    for _ in range(30 if tier == "quick" else 600):
        srcs.append(paytypes.grammar_for([paytypes.random_type(rng, rng.randint(1, 4), False) for _ in range(rng.randint(1, 6))], rng))
    recs = ast_records(srcs)
    if not recs:
        log("  note: no accepted file for the AST conformance step")
        return
    shards = max(1, min(6, len(recs) // 40))

    def one(k):
        opath = os.path.join(wd, "ast_obs_%d.ndjson" % k)
        with open(opath, "w") as f:
            for rec in recs[k::shards]:
                f.write(json.dumps(rec) + "\n")
        return common.tlc("AstJudge", env={"OBS": opath}, workers=1, timeout=6000, xmx="3g")
    import concurrent.futures as cf
    with cf.ThreadPoolExecutor(max_workers=shards) as ex:
        results = list(ex.map(one, range(shards)))
    verdicts = {}
    for r in results:
        if r.error:
            raise ToolError("AstJudge failed:\n" + r.error)
        run.add_tlc(r)
        for j in r.tagged("AJUDGE"):
            verdicts[j["id"]] = j
    if len(verdicts) != len(recs):
        raise ToolError("AstJudge judged %d of %d files" % (len(verdicts), len(recs)))
    drift = 0
    for rec in recs:
        j = verdicts[rec["id"]]
        run.evaluations += 1
        run.traces += 1
        if j["ok"]:
            run.nontrivial.add(("ast", j["items"], len(rec["kinds"]) // 8))
            continue
        if j["why"].startswith("SPEC"):
            raise ToolError("Ast.tla violates its own law on %r" % srcs[rec["id"]][:300])
        if "not a sentence" in j["why"]:
            run.violation({"kind": "frontend-accepts-non-sentence", "why": "C09: " + j["why"], "src": srcs[rec["id"]], "token_kinds": rec["kinds"],
                           "judged_by": "spec/AstJudge.tla (LR1 tables of KikiSyntax!KikiG)"})
            continue
        drift += 1
        if drift <= 3:
            print("CONFORMANCE-DRIFT property=C09 %s: %s" % (j["why"], json.dumps(srcs[rec["id"]])[:300]))
    run.notes["files_whose_declarations_were_compared"] = len(recs)
    run.notes["ast_drift"] = drift


def replay(prop, path):
    case = json.load(open(path))
    if case.get("kind") == "frontend-accepts-non-sentence":
        log("re-run ./check C09 quick (the case needs the AstJudge step)")
        return 0
    if "src" not in case:
        log("table-level finding: re-run ./check C09 quick")
        return 0
    o = common.kv("gen", [{"id": 0, "src": case["src"], "want": []}])[0]
    pred = case.get("predicted") or {}
    if "t" in pred and "at" in pred and pred["t"] in ("acc", "err", "eof"):
        why = check_one(case["token_kinds"], pred, case["src"], [tuple(s) for s in case["spans"]], o["res"])
        log("observed: %s -> %s" % (json.dumps(o["res"])[:300], why))
        if why:
            print("VIOLATION property=%s replay=%s" % (prop, path))
            return 1
    return 0
