"""Scale regime for C01-C03: emitted parsers with hundreds of states and terminals.

TLC cannot judge such grammars directly (one 262-state grammar: 13 minutes).  The oracle is compositional instead:
spec/Union.tla defines the tagged union  Top -> l_1 start_1 | ... | l_k start_k  of component grammars over disjoint
symbols and states the law  outcome(Union, l_i w) = outcome(G_i, w) shifted by one token  (for components with a
non-empty language; tokens foreign to G_i are tokens G_i cannot continue with), and that the union is LALR(1) iff every
component is; MC_Union checks both on every pair of a bounded pool.  Here the components are small grammars whose
outcomes Driver.tla predicted (and MC_Driver checked against the parser-free oracles); their union - 60 to 150 of them,
300+ states, 150+ terminals, a start enum with as many variants - goes through the real generate, is compiled by rustc,
and is run on the lifted inputs.  Expected lines are built with the same functions as for the small grammars.
"""
import json, os, random
import common, grammar, pipeline
from common import ToolError, log


def rename(G, tag):
    r = lambda x: x + tag
    return {"nts": [r(n) for n in G["nts"]], "ts": [r(t) for t in G["ts"]], "start": r(G["start"]),
            "rules": [{"lhs": r(x["lhs"]), "rhs": [r(y) for y in x["rhs"]]} for x in G["rules"]]}


def union(components):
    """components: list of grammars (abstract). Returns (union grammar, [(lead terminal, rule offset)] per component)."""
    U = {"nts": ["Top"], "ts": [], "start": "Top", "rules": []}
    info = []
    parts = []
    for i, G in enumerate(components):
        R = rename(G, "q%d" % i)
        lead = "$Lead%d" % i
        U["rules"].append({"lhs": "Top", "rhs": [lead, R["start"]]})
        parts.append((lead, R))
    off = len(components)
    for lead, R in parts:
        U["nts"] += R["nts"]
        U["ts"] += [lead] + R["ts"]
        info.append((lead, off, R))
        U["rules"] += R["rules"]
        off += len(R["rules"])
    return U, info


def lift_tree(t, tag, off):
    """Component tree (TLC JSON: leaf/sym/pos/rule/kids) -> the same tree inside the union: symbols renamed, rule numbers
    shifted by `off`, positions by one."""
    if t["leaf"]:
        return {"leaf": True, "sym": t["sym"] + tag, "pos": t["pos"] + 1, "rule": 0, "kids": []}
    return {"leaf": False, "sym": "", "pos": 0, "rule": t["rule"] + off, "kids": [lift_tree(k, tag, off) for k in t["kids"]]}


def lift_run(pr, i, lead, tag, off):
    if pr["t"] == "acc":
        return {"t": "acc", "tree": {"leaf": False, "sym": "", "pos": 0, "rule": i + 1,
                                     "kids": [{"leaf": True, "sym": lead, "pos": 1, "rule": 0, "kids": []}, lift_tree(pr["tree"], tag, off)]}}
    if pr["t"] == "eof":
        return {"t": "eof"}
    return {"t": "err", "at": pr["at"] + 1}


def productive_start(G):
    prod = set()
    changed = True
    while changed:
        changed = False
        for r in G["rules"]:
            if r["lhs"] not in prod and all(s in G["ts"] or s in prod for s in r["rhs"]):
                prod.add(r["lhs"])
                changed = True
    return G["start"] in prod


def run(prop, tier, seed, cases, preds, run_, wd, emitted):
    """cases / preds: the small grammars of the main run and Driver.tla's predictions for them."""
    rng = random.Random(seed * 131 + 7)
    # components: LALR(1) (predicted from tables), non-empty language, at most 2 terminals, payload types the runner can make
    pool = [k for k, c in enumerate(cases) if preds[k]["skip"] is None and len(c["G"]["ts"]) <= 2 and len(c["G"]["rules"]) <= 4
            and productive_start(c["G"]) and c.get("origin") != "suspicious"]
    if len(pool) < 20:
        log("  note: too few components for the scale regime")
        return
    sizes = [70, 150] if tier == "quick" else [70, 150, 150, 260]
    big = []
    for n in sizes:
        comp = [rng.choice(pool) for _ in range(n)]
        U, info = union([cases[k]["G"] for k in comp])
        pres = grammar.present(U, rng, payload=None)
        pres["ts"] = list(U["ts"])
        for t in pres["ts"]:
            pres["ttypes"][t] = rng.choice(emitted.PAYLOAD_TYPES)
        big.append({"G": U, "pres": pres, "src": grammar.render(U, pres, attrs=False), "origin": "scale", "comp": comp, "info": info})
    pipeline.run_real(big, want=("grammar", "rust", "machine"))
    ok = []
    for c in big:
        res = c["resp"]["res"]
        run_.evaluations += 1
        if res["t"] != "ok":
            # Union.tla: the union of LALR(1) components is LALR(1); a rejection is C04's business - but worth a line
            print("CONFORMANCE-DRIFT property=%s generate rejects a tagged union of %d LALR(1) grammars: %s" % (prop, len(c["comp"]), json.dumps(res)[:200]))
            continue
        c["rust"] = res["rust"]
        c["nstates"] = len(c["resp"].get("machine", {}).get("states", []))
        ok.append(c)
    if not ok:
        return
    inputs, meta = [], []
    for gi, c in enumerate(ok):
        ts = c["pres"]["ts"]
        tix = {t: i for i, t in enumerate(ts)}
        for i, (k, (lead, off, R)) in enumerate(zip(c["comp"], c["info"])):
            tag = "q%d" % i
            small = cases[k]
            sts = small["G"]["ts"]
            words = [w for (w, ended) in preds[k]["runs"].keys()]
            words = rng.sample(words, min(len(words), 6 if tier == "quick" else 14))
            for w in words:
                w = list(w)
                pr = emitted.predicted_for(preds[k], w)
                if pr is None:
                    continue
                lw = [lead] + [t + tag for t in w]
                ids = [rng.randrange(1, 1000000) for _ in lw]
                inputs.append((gi, [(tix[x], y) for x, y in zip(lw, ids)]))
                meta.append((gi, lw, ids, lift_run(pr, i, lead, tag, off)))
            # a foreign token (of another component, or another lead) after a viable prefix: it is the first offending token
            acc = [list(w) for (w, ended), r in preds[k]["runs"].items() if r["t"] == "acc" and len(w) >= 1]
            if acc:
                w = rng.choice(acc)
                cut = rng.randrange(len(w))
                j = rng.randrange(len(c["comp"]))
                foreign = c["info"][j][0] if rng.random() < 0.4 or j == i or not c["info"][j][2]["ts"] else rng.choice(c["info"][j][2]["ts"])
                lw = [lead] + [t + tag for t in w[:cut]] + [foreign] + [t + tag for t in w[cut:]]
                ids = [rng.randrange(1, 1000000) for _ in lw]
                inputs.append((gi, [(tix[x], y) for x, y in zip(lw, ids)]))
                meta.append((gi, lw, ids, {"t": "err", "at": cut + 2}))
        # degenerate inputs
        for lw, pr in (([], {"t": "eof"}),):
            inputs.append((gi, []))
            meta.append((gi, [], [], pr))
        nl = [t for t in ts if not t.startswith("$Lead")]
        if nl:
            t = rng.choice(nl)
            inputs.append((gi, [(tix[t], 5)]))
            meta.append((gi, [t], [5], {"t": "err", "at": 1}))
    outs, err = emitted.build_and_run_robust(ok, inputs, os.path.join(wd, "crate_scale"), prop, run_)
    if outs is None:
        if prop == "C02":
            run_.violation({"kind": "does-not-compile", "why": "C02: no value of the declared shape can be obtained for a large grammar: rustc rejects the emitted parser or the exact-shape walker: " + err[:900],
                            "src": ok[0]["src"][:4000], "judged_by": "rustc on the emitted module plus generated exact-shape walker"})
            return
        raise ToolError("emitted parsers of the scale regime did not compile / run:\n" + err[:3000])
    n = 0
    for (gi, lw, ids, pr), got in zip(meta, outs):
        if got == "UNRUN":
            continue
        c = ok[gi]
        run_.evaluations += 1
        run_.traces += 1
        n += 1
        exp = emitted.expected_line(c, pr, lw, ids)
        if got == "HANG" or got.startswith("DIED"):
            if prop == "C01":
                run_.violation(scale_case(c, lw, ids, exp, got, "C01: the emitted parser of a large grammar did not terminate normally on this input"))
            continue
        if got != exp and emitted.classify(exp, got) == prop:
            run_.violation(scale_case(c, lw, ids, exp, got, "%s: emitted parser of a large grammar (%d components, %d states, %d terminals) disagrees with the prediction lifted "
                                      "from its component by Union.tla" % (prop, len(c["comp"]), c["nstates"], len(c["pres"]["ts"]))))
        elif got == exp:
            run_.nontrivial.add(("scale", gi, pr["t"], len(lw)))
    run_.notes["scale_regime"] = {"grammars": [{"components": len(c["comp"]), "states": c["nstates"], "terminals": len(c["pres"]["ts"]),
                                                "rules": len(c["G"]["rules"])} for c in ok], "inputs_run": n}


def scale_case(c, lw, ids, exp, got, why):
    return {"kind": "emitted-run-scale", "why": why, "src": c["src"], "grammar": c["G"], "pres": c["pres"], "input": lw, "payload_ids": ids,
            "expected": exp, "observed": got, "judged_by": "spec/Union.tla (UnionOutcome) over Driver.tla's predictions for the component"}


# ---------------------------------------------------------------------------------------------------------------------
# scale regime for the tables (C17) and the verdict (C04)
# ---------------------------------------------------------------------------------------------------------------------
def project(T, comp_ts, comp_nts, lead, tag, top_rule, off, nrules):
    """The part of the union's tables that belongs to one component, in the component's own vocabulary: the states reachable
    from the state entered by shifting `lead`, columns = the component's terminals + end of input and its nonterminals,
    rule numbers shifted back, `reduce Top -> lead S_i` (on end of input) read as `accept`.  Returns (table, None) or
    (None, reason) when the rows refer to anything outside the component - which the union's LALR(1) tables never do."""
    ts, nts = T["ts"], T["nts"]
    tcol = {t: k for k, t in enumerate(ts)}
    ncol = {n: k for k, n in enumerate(nts)}
    eof = len(ts)
    cell = T["action"][T["start"]][tcol[lead]]
    if cell[0] != "s":
        return None, "the start state does not shift the lead terminal %s" % lead
    mine_t = [tcol[t + tag] for t in comp_ts]
    mine_n = [ncol[n + tag] for n in comp_nts]
    order, seen = [cell[1]], {cell[1]}
    i = 0
    while i < len(order):
        s = order[i]
        i += 1
        for k in mine_t + [eof]:
            a = T["action"][s][k]
            if a[0] == "s" and a[1] not in seen:
                seen.add(a[1])
                order.append(a[1])
        for k in mine_n:
            g = T["goto"][s][k]
            if g != -1 and g not in seen:
                seen.add(g)
                order.append(g)
    renum = {s: k for k, s in enumerate(order)}
    action, goto = [], []
    for s in order:
        for k in range(len(ts) + 1):
            if k not in mine_t and k != eof and T["action"][s][k][0] != "e":
                return None, "state %d has the action %r on the foreign terminal %s" % (s, T["action"][s][k], ts[k])
        for k in range(len(nts)):
            if k not in mine_n and T["goto"][s][k] != -1:
                return None, "state %d has a goto on the foreign nonterminal %s" % (s, nts[k])
        row = []
        for k in mine_t + [eof]:
            a = T["action"][s][k]
            if a[0] == "s":
                row.append(["s", renum[a[1]]])
            elif a[0] == "r":
                if a[1] == top_rule and k == eof:
                    row.append(["a", 0])
                elif off < a[1] <= off + nrules:
                    row.append(["r", a[1] - off])
                else:
                    return None, "state %d reduces by rule %d, which is not a rule of the component" % (s, a[1])
            elif a[0] == "a":
                return None, "state %d accepts inside a component" % s
            else:
                row.append(["e", 0])
        action.append(row)
        goto.append([-1 if T["goto"][s][k] == -1 else renum[T["goto"][s][k]] for k in mine_n])
    return {"start": 0, "ts": list(comp_ts), "nts": list(comp_nts), "action": action, "goto": goto}, None


def tables(prop, tier, seed, cases, run_, wd):
    """cases: the judged small cases of the pipeline run (c["judge"]["cf"] = the specification's verdict)."""
    rng = random.Random(seed * 137 + 11)
    small = [c for c in cases if c.get("judge") and c["rec"] is not None and c["origin"] in ("U2", "U3a", "U3b", "classics", "bracket")
             and len(c["G"]["ts"]) <= 3 and len(c["G"]["rules"]) <= 6]
    good = [c for c in small if c["judge"]["cf"]]
    bad = [c for c in small if not c["judge"]["cf"]]
    if len(good) < 30 or not bad:
        log("  note: too few components for the scale regime of the tables")
        return
    plans = [("all LALR(1)", [rng.choice(good) for _ in range(90 if tier == "quick" else 200)], True)]
    comp = [rng.choice(good) for _ in range(60)]
    comp[rng.randrange(len(comp))] = rng.choice(bad)
    plans.append(("one component with an LALR(1) conflict", comp, False))
    big = []
    for label, comp, lalr in plans:
        U, info = union([c["G"] for c in comp])
        pres = grammar.present(U, rng)
        pres["ts"] = list(U["ts"])
        big.append({"G": U, "pres": pres, "src": grammar.render(U, pres), "origin": "scale", "comp": comp, "info": info, "lalr": lalr, "label": label})
    pipeline.run_real(big)
    records, where = [], {}
    for c in big:
        res = c["resp"]["res"]
        run_.evaluations += 1
        accepted = res["t"] == "ok"
        conflict = res["t"] == "err" and res["err"]["v"] == "TableConflict"
        case = {"kind": "pipeline-scale", "src": c["src"], "label": c["label"], "components": len(c["comp"]),
                "judged_by": "spec/Union.tla (the union is LALR(1) iff every component is; its tables restricted to a component are the component's tables) + PipelineJudge"}
        if prop == "C04":
            if c["lalr"] and not accepted:
                run_.violation(dict(case, why="C04: a tagged union of %d LALR(1) grammars (disjoint symbols, distinct lead terminals) is rejected: %s" % (len(c["comp"]), json.dumps(res)[:200])))
            if not c["lalr"] and not conflict:
                run_.violation(dict(case, why="C04: a tagged union containing a component with an LALR(1) conflict is not rejected with a table conflict: %s" % json.dumps(res)[:120]))
            run_.nontrivial.add(("scale", c["label"]))
        if prop != "C17" or not accepted or not c["lalr"]:
            continue
        try:
            T = grammar.extract_tables(res["rust"], c["pres"]["ts"], c["pres"]["nts"])
        except grammar.MalformedTables as e:
            run_.violation(dict(case, why="C17: the emitted tables of a large grammar are inconsistent with their own declaration: %s" % e))
            continue
        H = grammar.hook_table(c["resp"]["table"])
        if T != H:
            diff = next(((s, k) for s in range(min(len(T["action"]), len(H["action"]))) for k in range(len(T["action"][s])) if T["action"][s][k] != H["action"][s][k]), None)
            run_.violation(dict(case, why="C17: the tables in the emitted text of a large grammar (%d states) are not the tables the pipeline computed (first differing ACTION cell: %r)"
                                % (len(T["action"]), diff)))
            continue
        run_.notes["scale_tables"] = {"states": len(T["action"]), "terminals": len(T["ts"]), "nonterminals": len(T["nts"]), "components": len(c["comp"])}
        off = len(c["comp"])
        for i, (sc, (lead, off_i, R)) in enumerate(zip(c["comp"], c["info"])):
            tag = "q%d" % i
            G = sc["G"]
            sub, why = project(T, G["ts"], G["nts"], lead, tag, i + 1, off_i, len(G["rules"]))
            if sub is None:
                run_.violation(dict(case, why="C17: in the tables of a large grammar, component %d (%s): %s" % (i, json.dumps(G)[:200], why)))
                continue
            rid = len(records)
            records.append({"id": rid, "g": grammar.tla_grammar(G), "verdict": "ok", "tables": [sub], "machines": [], "conflict": []})
            where[rid] = (c, i, G)
    if records:
        verdicts, results = pipeline.judge(records, os.path.join(wd), shards=8)
        for r in results:
            run_.add_tlc(r)
        for rid, (c, i, G) in where.items():
            j = verdicts[rid]
            run_.traces += 1
            mine = [w for w in j.get("whys", []) if w.startswith("C17:")]
            if mine:
                run_.violation({"kind": "pipeline-scale", "src": c["src"], "label": c["label"], "component": G,
                                "why": "C17: inside the tables of a large grammar (%d components), the part belonging to component %d is not the LALR(1) table of that component: %s"
                                       % (len(c["comp"]), i, mine[0]),
                                "judged_by": "spec/Union.tla + LR1!TablesMatch on the projected tables"})
            else:
                run_.nontrivial.add(("scale-component", rid))
