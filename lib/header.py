"""Engine `header`: C15 (emitted header carries the source hash; get_grammar_hash reads it back).

Design level: MC_Header - the line-by-line scan of get_grammar_hash computes the declarative RefHash (remainder of the
first prefix line inside the maximal leading `//` block) on every text of up to MAXLINES lines over eleven line
classes; the emitted header round-trips; Freshness.tla - the build-script protocol is never stale after a build given
an injective digest.
Conformance (A): every explored text is rendered to concrete text (seeded LF / CRLF / missing final terminator) and
given to the real get_grammar_hash; every accepted grammar of a corpus goes through the real generate, the header
line must lie in the leading `//` block and get_grammar_hash(generate(src)) must equal an INDEPENDENT SHA-256
(python hashlib) of the exact source bytes; the build-script decision is replayed on one-byte variations.
"""
import hashlib, json, os, random
import common, grammar, pipeline
from common import ToolError, log

V1, V2 = "abc123def4567890", "0123ffee"
CLASS_TEXT = {
    "hash": "// @sha256 " + V1,
    "hash2": "// @sha256 " + V2,
    "dbl": "// @sha256 // @sha256 " + V1,
    "bare": "// @sha256 ",
    "comment": "// plain comment, not a hash",
    "slashes": "//",
    "doc": "/// @sha256 " + V1,
    "nospace": "// @sha256" + V1,
    "indent": "  // @sha256 " + V1,
    "empty": "",
    "code": "fn f() {}",
    "block": "/* Licensed under MIT. */",
    "slash1": "/",
}
REMAINDER = {"v1": V1, "v2": V2, "prefix+v1": "// @sha256 " + V1, "": ""}


def render(classes, rng):
    out = []
    for i, c in enumerate(classes):
        last = i == len(classes) - 1
        term = rng.choice(["\n", "\r\n"] + ([""] if last else []))
        out.append(CLASS_TEXT[c] + term)
    return "".join(out)


def corpus(rng, n_random):
    srcs = []
    for root in ("/repo/kiki/src", "/repo/kiki_e2e_test/src"):
        for d, _, fs in os.walk(root):
            if "should_fail" in d:
                continue
            for f in sorted(fs):
                if f.endswith(".kiki"):
                    srcs.append(open(os.path.join(d, f), encoding="utf-8").read())
    srcs.sort()
    for _ in range(n_random):
        G = pipeline.random_grammar(rng, max_nts=4, max_ts=3, max_rules=8, max_rhs=3)
        pres = grammar.present(G, rng, payload=None)
        s = grammar.render(G, pres)
        # layout variations that must all end up in the digest: trailing newline or not, CRLF, multi-byte comments, BOM-less
        r = rng.random()
        if r < 0.2:
            s = s.rstrip("\n")
        elif r < 0.4:
            s = s.replace("\n", "\r\n")
        elif r < 0.6:
            s = "// é€😀 header comment\n" + s + "// trailing comment without newline"
        elif r < 0.7:
            s = s + "\n\n   \t"
        srcs.append(s)
    return srcs


def vcase(why, **kw):
    return dict({"kind": "header", "why": "C15: " + why, "judged_by": "spec/Header.tla (RefHash) / independent SHA-256"}, **kw)


INVALID_TEXTS = ["start S\nstruct S { a: $A }\n",                                                   # no terminal declaration
                 "start S\nstruct S { a: $A\nterminal T { $A: () }\n",                              # parse error
                 "start S\nstruct S { a: $A } # oops\nterminal T { $A: () }\n",                      # lexical error
                 "start S\nenum S { A(S S) B($A) }\nterminal T { $A: () }\n",                        # table conflict
                 "start Q\nstruct S { a: $A }\nterminal T { $A: () }\n"]                              # undefined start


def build_script_proof(run):
    """TLAPS: NeverStale and FailureIsHonest are invariants of BuildScript.tla for ANY set of versions (BuildScriptProof.tla,
    92 obligations, ~25 s). A proof that no longer goes through is a defect of the specification (exit 2); a tlapm that
    cannot be run at all only leaves a note in the evidence."""
    import shutil, subprocess, tempfile
    if not shutil.which("tlapm"):
        run.notes["tlaps_BuildScriptProof"] = "tlapm not found"
        return
    d = tempfile.mkdtemp(prefix="tlaps_", dir=common.workdir("header_tlaps"))
    for f in ("BuildScript.tla", "BuildScriptProof.tla"):
        shutil.copy(os.path.join(common.SPEC, f), d)
    try:
        p = subprocess.run(["tlapm", "--threads", "8", "BuildScriptProof.tla"], cwd=d, capture_output=True, text=True, timeout=900)
    except subprocess.TimeoutExpired:
        run.notes["tlaps_BuildScriptProof"] = "tlapm did not finish within 900 s"
        return
    out = p.stdout + p.stderr
    m = __import__("re").search(r"All (\d+) obligations? proved", out)
    if m:
        run.notes["tlaps_BuildScriptProof"] = "all %s obligations proved (any set of versions)" % m.group(1)
    elif "obligations failed" in out:
        raise ToolError("BuildScriptProof.tla: TLAPS no longer proves the invariants of BuildScript.tla (specification defect):\n" + out[-1500:])
    else:
        run.notes["tlaps_BuildScriptProof"] = "tlapm could not be run: " + out[-300:]
    shutil.rmtree(d, ignore_errors=True)


def build_script_replay(run, rng, accepted, rounds):
    """Every Build transition of the exhaustively explored BuildScript.tla (51 states: 4 grammar versions x 9 parser-file
    contents x outcome of the last step) is replayed on the real code: `kv fresh` performs the build script's three
    library calls (sha256 of the grammar, get_grammar_hash of the parser file, generate) on concrete texts; the predicted
    outcome (fresh / regenerated / failed) and the predicted file content must match. Versions 1 and 2 are the same
    grammar in two layouts, 3 is another grammar, 4 is a text generate rejects."""
    r = common.tlc("MC_BuildScript", workers=1, timeout=600, coverage=True)
    if r.error:
        raise ToolError("MC_BuildScript: the build-script protocol violates its own invariants (specification defect):\n" + r.error)
    run.add_tlc(r)
    edges = r.tagged("EDGE")
    if len(accepted) < 2:
        log("  note: fewer than two accepted grammars, the build-script replay is skipped")
        return
    n = 0
    for _ in range(rounds):
        a, b = rng.sample(accepted, 2)
        relaid = rng.choice([a + " ", a + "\n", "// c\n" + a, a.replace("\n", "\r\n") if "\r" not in a else a + "\t", a.rstrip("\n") if a.endswith("\n") else a + "\n\n"])
        text = {1: a, 2: relaid, 3: b, 4: rng.choice(INVALID_TEXTS)}
        if len({text[1], text[2], text[3]}) < 3:
            continue
        gen = {}
        outs = common.kv("gen", [{"id": v, "src": text[v], "want": ["rust"]} for v in (1, 2, 3, 4)])
        for v, o in zip((1, 2, 3, 4), outs):
            gen[v] = o["res"]["rust"] if o["res"]["t"] == "ok" else None
        if gen[1] is None or gen[2] is None or gen[3] is None or gen[4] is not None:
            # which texts generate accepts is not C15's business: this concretisation does not fit the model's versions
            run.notes["build_script_rounds_skipped"] = run.notes.get("build_script_rounds_skipped", 0) + 1
            continue
        digest = {v: hashlib.sha256(text[v].encode("utf-8")).hexdigest() for v in text}

        def content(p):
            if p["kind"] == "absent":
                return None
            if p["kind"] == "gen":
                return gen[p["from"]]
            if p["kind"] == "late":
                return rng.choice(["fn f() {}\n// @sha256 %s\n", "\n// @sha256 %s\nfn f() {}\n", "/* c */\n// @sha256 %s\n"]) % digest[p["from"]]
            return rng.choice(["// generated by hand\nfn f() {}\n", "", "fn f() {}\n"])
        reqs = [{"id": i, "gram": text[e["gram"]], "parser": content(e["parser"])} for i, e in enumerate(edges)]
        resps = common.kv("fresh", reqs, timeout=600)
        for e, q, o in zip(edges, reqs, resps):
            run.evaluations += 1
            run.traces += 1
            n += 1
            want_written = gen[e["to"]["from"]] if e["outcome"] == "regenerated" else None
            why = None
            if o["outcome"] != e["outcome"]:
                why = "the build script's step ended as %r, BuildScript.tla says %r" % (o["outcome"], e["outcome"])
            elif o.get("written") != want_written:
                why = "the build script wrote a parser file that is not generate's output for the current grammar text"
            if why:
                run.violation(vcase(why + " (grammar file: version %d, parser file: %s)" % (e["gram"], json.dumps(e["parser"])),
                                    gram=q["gram"], parser=q["parser"], predicted=e["outcome"], observed=o["outcome"], kind="build-script"))
            run.nontrivial.add(("build-script", e["gram"], e["parser"]["kind"], e["parser"]["from"], e["outcome"]))
    run.notes["build_script_edges_replayed"] = n


def check(prop, tier, seed):
    run = common.Run(prop, tier, seed)
    wd = common.workdir("header_%s" % tier)
    common.build_harness()
    rng = random.Random(seed * 17 + 3)
    r = common.tlc("MC_Header", env={"MAXLINES": 4 if tier == "quick" else 5}, workers=6, timeout=3000, xmx="6g")
    if r.error:
        raise ToolError("MC_Header: the scan does not compute RefHash (specification defect):\n" + r.error)
    run.add_tlc(r)
    rf = common.tlc_ok("Freshness", cfg="MC_Freshness", workers=2, timeout=300)
    run.add_tlc(rf)
    cases = r.tagged("HASH")
    texts, preds = [], []
    for c in cases:
        for _ in range(2):
            texts.append(render(c["text"], rng))
            preds.append(REMAINDER[c["v"]] if c["some"] else None)
    resps = common.kv("hash", [{"id": i, "text": t} for i, t in enumerate(texts)], timeout=1800)
    for c, t, p, o in zip([c for c in cases for _ in range(2)], texts, preds, resps):
        run.evaluations += 1
        run.traces += 1
        if "panic" in o:
            run.violation(vcase("get_grammar_hash panicked: %s" % o["panic"], text=t, classes=c["text"]))
        elif o["res"] != p:
            run.violation(vcase("get_grammar_hash returned %r, the specification says %r" % (o["res"], p), text=t, classes=c["text"],
                                predicted=p, observed=o["res"]))
        run.nontrivial.add(tuple(c["text"]))
    run.sample({"text": texts[len(texts) // 2], "predicted": preds[len(texts) // 2]})
    # emitted headers of real generate runs
    srcs = corpus(rng, 150 if tier == "quick" else 3000)
    resps = common.kv("gen", [{"id": i, "src": s, "want": ["rust", "hash"]} for i, s in enumerate(srcs)], timeout=1800)
    n_ok = 0
    for s, o in zip(srcs, resps):
        res = o["res"]
        if res["t"] != "ok":
            continue
        n_ok += 1
        run.evaluations += 1
        run.traces += 1
        indep = hashlib.sha256(s.encode("utf-8")).hexdigest()
        rust = res["rust"]
        if o.get("hash") != indep:
            run.violation(vcase("get_grammar_hash(generate(src)) = %r but SHA-256 of the source bytes is %s" % (o.get("hash"), indep), src=s))
            continue
        lines = rust.split("\n")
        if not lines or not lines[0].startswith("//"):
            run.violation(vcase("emitted text does not begin with a `//` comment header", src=s))
            continue
        k = 0
        while k < len(lines) and lines[k].startswith("//"):
            k += 1
        hl = [ln for ln in lines[:k] if ln.startswith("// @sha256 ")]
        if len(hl) < 1 or hl[0] != "// @sha256 " + indep:
            run.violation(vcase("the leading `//` block has no line `// @sha256 <digest of the source>`", src=s))
        # build-script decision on one-byte variations: must be stale
        pos = rng.randrange(len(s) + 1)
        s2 = s[:pos] + rng.choice([" ", "\n", "x", "\t"]) + s[pos:]
        if hashlib.sha256(s2.encode("utf-8")).hexdigest() == o.get("hash"):
            run.violation(vcase("freshness test succeeds for a different grammar text", src=s, other=s2))
    import concurrent.futures as cf
    bg = cf.ThreadPoolExecutor(max_workers=1)
    proof = bg.submit(build_script_proof, run)
    build_script_replay(run, rng, [s for s, o in zip(srcs, resps) if o["res"]["t"] == "ok"], 3 if tier == "quick" else 40)
    proof.result()
    if n_ok < 5:
        log("  note: only %d grammars of the header corpus were accepted by generate" % n_ok)
    run.notes["emitted_headers_checked"] = n_ok
    run.rule = "distinct line-class sequences scanned by the real get_grammar_hash (each rendered twice with seeded LF/CRLF/no final terminator); plus emitted headers of accepted grammars checked against python hashlib"
    run.exhaustive = True
    run.assumptions = ["TLC/CommunityModules", "SHA-256 is collision resistant (Digest is injective in Freshness.tla)", "python hashlib as the independent SHA-256"]
    return run.finish()


def replay(prop, path):
    case = json.load(open(path))
    if case.get("kind") == "build-script":
        o = common.kv("fresh", [{"id": 0, "gram": case["gram"], "parser": case["parser"]}])[0]
        log("observed %r, predicted %r" % (o.get("outcome"), case.get("predicted")))
        if o.get("outcome") != case.get("predicted"):
            print("VIOLATION property=%s replay=%s" % (prop, path))
            return 1
        return 0
    if "text" in case:
        o = common.kv("hash", [{"id": 0, "text": case["text"]}])[0]
        log("observed %r, predicted %r" % (o.get("res"), case.get("predicted")))
        if o.get("res") != case.get("predicted"):
            print("VIOLATION property=%s replay=%s" % (prop, path))
            return 1
        return 0
    s = case["src"]
    o = common.kv("gen", [{"id": 0, "src": s, "want": ["hash"]}])[0]
    if o["res"]["t"] == "ok" and o.get("hash") != hashlib.sha256(s.encode("utf-8")).hexdigest():
        print("VIOLATION property=%s replay=%s" % (prop, path))
        return 1
    return 0
