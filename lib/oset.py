"""Engine `oset`: C18 (the public ordered set behaves as a sorted mathematical set).

Design level: MC_Oset explores Oset.tla exhaustively (Elem = 0..N-1 under four different element orders, every
argument sequence up to length L with duplicates and any order) and checks sortedness, set denotation, membership by
binary search, equality and ordering by element set.  OsetInd.tla discharges the core invariant inductively over
unbounded integers with Apalache.
Conformance (A): every transition TLC explored is replayed on two real kiki::Oset values through the public API only
(reaching the source state by a shortest path of real operations) and every observation is compared.
Conformance (B): seeded random histories of hundreds of operations over 16 elements are recorded and validated step
by step by TLC (OsetTrace).
"""
import json, os, random, subprocess, collections
import common
from common import ToolError, log

TYPES = ["int", "rev", "parity", "item"]


def order_of(ty, n):
    r = common.kv("oset", [{"id": 0, "ty": ty, "order": n}])
    return r[0]["order"]


def explore(ty, n, maxlen, wd, run):
    order = order_of(ty, n)
    of = os.path.join(wd, "order_%s.json" % ty)
    with open(of, "w") as f:
        f.write(json.dumps({"n": n, "order": order, "maxlen": maxlen}) + "\n")
    r = common.tlc("MC_Oset", env={"ORDERFILE": of}, workers=6, timeout=3000, xmx="6g")
    if r.error:
        raise ToolError("MC_Oset: the specification violates its own properties:\n" + r.error)
    run.add_tlc(r)
    return r.tagged("EDGE"), order


def replay_edges(ty, n, edges, run):
    # shortest real-operation path to every state, from the edges themselves (BFS over the explored graph)
    succ = collections.defaultdict(list)
    for e in edges:
        succ[(tuple(e["fa"]), tuple(e["fb"]))].append(e)
    path = {((), ()): []}
    queue = collections.deque([((), ())])
    while queue:
        s = queue.popleft()
        for e in succ.get(s, []):
            t = (tuple(e["to"]["a"]), tuple(e["to"]["b"]))
            if t not in path:
                path[t] = path[s] + [{"w": e["w"], "op": e["op"], "args": e["args"]}]
                queue.append(t)
    reqs = []
    for i, e in enumerate(edges):
        s = (tuple(e["fa"]), tuple(e["fb"]))
        if s not in path:
            raise ToolError("edge from an unreachable state?")
        reqs.append({"id": i, "ty": ty, "n": n, "ops": path[s] + [{"w": e["w"], "op": e["op"], "args": e["args"]}]})
    resps = common.kv("oset", reqs, timeout=1800)
    for e, q, r in zip(edges, reqs, resps):
        run.evaluations += 1
        run.traces += 1
        if "panic" in r:
            run.violation(vcase(ty, q["ops"], "Oset operation panicked: %s" % r["panic"], e["to"], None))
            continue
        obs = r["steps"][-1]
        why = diff(e["to"], obs, n)
        if why:
            run.violation(vcase(ty, q["ops"], why, e["to"], obs))
        # the state before the last op must be the edge's source state (the path really led there)
        if len(r["steps"]) >= 2:
            pre = r["steps"][-2]
            if pre["a"] != e["fa"] or pre["b"] != e["fb"]:
                run.violation(vcase(ty, q["ops"][:-1], "the real sets are not in the state the specification is in", {"a": e["fa"], "b": e["fb"]}, pre))
        run.nontrivial.add((ty, tuple(e["fa"]), tuple(e["fb"]), e["op"], e["w"], tuple(e["args"])))
    return len(path)


def diff(pred, obs, n):
    for k in ("a", "b"):
        if obs[k] != pred[k]:
            return "contents of %s differ: specification %r, real %r" % (k, pred[k], obs[k])
        if obs[k + "_ref"] != pred[k] or obs[k + "_own"] != pred[k]:
            return "iteration over %s does not yield its contents" % k
        if obs["len_" + k] != len(pred[k]):
            return "len of %s differs" % k
    for k, ck in (("a", "ca"), ("b", "cb")):
        exp = [pred[ck][str(x)] if isinstance(pred[ck], dict) else pred[ck][x] for x in range(n)]
        if obs[ck] != exp:
            return "contains on %s answers %r, specification %r" % (k, obs[ck], exp)
    if obs["eq"] != pred["eq"]:
        return "== answers %r, specification %r" % (obs["eq"], pred["eq"])
    if obs["cmp"] != pred["cmp"] or obs["pcmp"] != pred["cmp"]:
        return "cmp/partial_cmp answer %r/%r, specification %r" % (obs["cmp"], obs["pcmp"], pred["cmp"])
    if obs["heq"] != pred["eq"]:
        return "hash equality %r disagrees with set equality %r" % (obs["heq"], pred["eq"])
    return None


def vcase(ty, ops, why, pred, obs):
    return {"kind": "oset", "why": "C18: " + why, "elem_type": ty, "ops": ops, "predicted": pred, "observed": obs,
            "judged_by": "spec/Oset.tla"}


def random_histories(ty, n, count, length, rng):
    reqs = []
    for i in range(count):
        ops = []
        for _ in range(length):
            w = rng.choice("ab")
            r = rng.random()
            if r < 0.5:
                ops.append({"w": w, "op": "insert", "args": [rng.randrange(n)]})
            elif r < 0.85:
                ops.append({"w": w, "op": "extend", "args": [rng.randrange(n) for _ in range(rng.randint(0, 6))]})
            else:
                ops.append({"w": w, "op": "from_iter", "args": [rng.randrange(n) for _ in range(rng.randint(0, 8))]})
        reqs.append({"id": i, "ty": ty, "n": n, "ops": ops})
    return reqs


def big_histories(ty, n, count, length, rng):
    """Histories over n distinguishable elements that START with large sets and then mostly add a few elements at a time
    (duplicates of present elements, elements beyond the current maximum, runs in increasing order): sets stay above the
    sizes where an implementation might switch algorithm."""
    reqs = []
    for i in range(count):
        low = n - 8       # the eight greatest elements are absent at first, so that "beyond the current maximum" really occurs
        ops = [{"w": w, "op": "from_iter", "args": rng.sample(range(low), rng.randint(33, low)) + [rng.randrange(low) for _ in range(5)]} for w in "ab"]
        for _ in range(length):
            w = rng.choice("ab")
            r = rng.random()
            if r < 0.35:
                ops.append({"w": w, "op": "insert", "args": [rng.randrange(n)]})
            elif r < 0.9:
                k = rng.randint(1, 5)
                base = rng.randrange(n)
                hi = rng.randrange(low, n)
                args = rng.choice([[rng.randrange(n) for _ in range(k)], [base] * k, sorted(rng.randrange(n) for _ in range(k)),
                                   [min(n - 1, base + j) for j in range(k)], [n - 1 - j for j in range(k)][::-1],
                                   [hi] * max(2, k), sorted(rng.randrange(low, n) for _ in range(max(2, k))), [hi, rng.randrange(low), hi]])
                ops.append({"w": w, "op": "extend", "args": args})
            else:
                ops.append({"w": w, "op": "from_iter", "args": rng.sample(range(low), rng.randint(33, low))})
        reqs.append({"id": i, "ty": ty, "n": n, "ops": ops})
    return reqs


def trace_validate(ty, n, reqs, wd, run):
    order = order_of(ty, n)
    of = os.path.join(wd, "torder_%s.json" % ty)
    with open(of, "w") as f:
        f.write(json.dumps({"n": n, "order": order, "maxlen": 0}) + "\n")
    resps = common.kv("oset", reqs, timeout=1800)
    path = os.path.join(wd, "osettrace_%s.ndjson" % ty)
    nlines = 0
    index = []
    with open(path, "w") as f:
        for q, r in zip(reqs, resps):
            if "panic" in r:
                run.violation(vcase(ty, q["ops"], "Oset operation panicked: %s" % r["panic"], None, None))
                continue
            f.write(json.dumps({"ev": "reset"}) + "\n")
            nlines += 1
            for op, st in zip(q["ops"], r["steps"]):
                f.write(json.dumps(dict(st, ev="op", w=op["w"], op=op["op"], args=op["args"], pcmp=st["pcmp"] if st["pcmp"] is not None else 99)) + "\n")
                nlines += 1
                index.append((q, nlines))
    r = common.tlc("OsetTrace", env={"ORDERFILE": of, "TRACE": path}, workers=1, timeout=3000, deque=True, xmx="3g")
    run.add_tlc(r)
    if r.tagged_raw("TRACE-ACCEPTED"):
        run.traces += len(reqs)
        run.evaluations += nlines
        return
    rej = r.tagged_raw("TRACE-REJECTED")
    if not rej:
        raise ToolError("OsetTrace neither accepted nor rejected:\n" + (r.error or r.out[-2000:]))
    import re
    lineno = int(re.match(r'^<<"TRACE-REJECTED", (\d+)', rej[0]).group(1))
    q = next((q for q, ln in index if ln >= lineno), reqs[-1])
    run.violation(vcase(ty, q["ops"], "a recorded history of the real Oset is not a behaviour of Oset.tla (rejected at trace line %d: %s)" % (lineno, rej[0][:300]), None, None))


def apalache(run, wd):
    """Inductive invariant over unbounded integers (design level only)."""
    out = {}
    for name, args in (("init", ["--inv=IndInv", "--length=0"]), ("step", ["--init=IndInit", "--inv=IndInv", "--length=1"])):
        d = os.path.join(wd, "apalache_" + name)
        try:
            p = subprocess.run(["apalache-mc", "check", "--cinit=ConstInit", *args, "--out-dir=" + d,
                                os.path.join(common.SPEC, "OsetInd.tla")], capture_output=True, text=True, timeout=600, cwd=wd)
        except subprocess.TimeoutExpired:
            out[name] = "timeout"
            continue
        out[name] = "NoError" if "EXITCODE: OK" in p.stdout else "FAILED: " + p.stdout[-400:]
    run.notes["apalache_inductive_invariant"] = out
    if any(v != "NoError" and v != "timeout" for v in out.values()):
        raise ToolError("Apalache rejected the inductive invariant of OsetInd.tla: %r" % out)


def check(prop, tier, seed):
    run = common.Run(prop, tier, seed)
    wd = common.workdir("oset_%s" % tier)
    common.build_harness()
    n, maxlen = (4, 2) if tier == "quick" else (4, 3)
    nstates = 0
    for ty in TYPES:
        edges, order = explore(ty, n, maxlen, wd, run)
        nstates += replay_edges(ty, n, edges, run)
        if ty == "item":
            run.sample({"elem_type": ty, "order_of_ids": order, "edge": edges[len(edges) // 3]})
    rng = random.Random(seed * 101 + 7)
    for ty in TYPES:
        reqs = random_histories(ty, 16, 12 if tier == "quick" else 60, 200 if tier == "quick" else 1000, rng)
        trace_validate(ty, 16, reqs, wd, run)
        # one-dimension scale: 44 / 64 distinguishable elements, sets of 36+ elements extended a few elements at a time
        if ty != "item":      # the harness has 16 distinguishable StateItem values only
            nbig = 44 if tier == "quick" else 64      # the specification's sorting is cubic in the set size: ~0.2 s / 0.5 s per step
            reqs = big_histories(ty, nbig, 2 if tier == "quick" else 6, 40 if tier == "quick" else 80, rng)
            trace_validate(ty, nbig, reqs, wd, run)
    apalache(run, wd)
    run.notes["states_replayed"] = nstates
    run.rule = ("distinct transitions (element type, source state (raw_a, raw_b), operation, arguments) of the exhaustively explored "
                "state graph that were replayed on real Oset values; plus recorded random histories (evaluations counts their steps)")
    run.exhaustive = True
    run.assumptions = ["TLC/CommunityModules; Apalache 0.58 for the inductive invariant", "element types: i64, reversed order, parity-first order, kiki's StateItem",
                       "hash equality is observed with DefaultHasher (collisions ignored)"]
    return run.finish()


def replay(prop, path):
    case = json.load(open(path))
    run = common.Run(prop, "quick", 1)
    wd = common.workdir("oset_replay")
    ty = case["elem_type"]
    n = 16 if any(x >= 4 for op in case["ops"] for x in op["args"]) else 4
    trace_validate(ty, n, [{"id": 0, "ty": ty, "n": n, "ops": case["ops"]}], wd, run)
    if run.violations:
        print("VIOLATION property=%s replay=%s" % (prop, path))
        return 1
    return 0
