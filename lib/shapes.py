"""Engine `shapes`: C06 (emitted type definitions and the parse signature mirror the declarations).

Design level: MC_Emit (MODE=shapes) enumerates every fieldset pattern with <= 3 fields (struct|variant x named|tuple|
empty x used/`_` mask x terminal/nonterminal per field) and checks the shape laws of Emit.tla.
Conformance: each pattern is embedded in a small grammar and pushed through the real generate; (i) the user-visible
region of the emitted text is parsed back into the abstract item syntax and compared with Emit!Shape's prediction
(form, field order, names, pub, Box exactly on nonterminals, payload types), the terminal enum and every nonterminal
must be declared pub, in order, with their variants in order; (ii) a client IN ANOTHER MODULE that constructs and
destructures every emitted type exactly (no `..`), names every field, and uses parse through a plain fn pointer and
through two different iterator types is type-checked by rustc.  Seeded random larger grammars are treated the same.
"""
import json, os, random, re, subprocess
import common, grammar, rustparse, pipeline, emitted
from common import ToolError, log

PAY_A, PAY_B = "u32", "crate::P"


def pattern_grammar(decl):
    """Kiki text with the pattern as nonterminal Pat; returns (src, field symbols)."""
    syms = []
    flip = 0
    for f in decl["fields"]:
        if f["term"]:
            syms.append("$A" if flip % 2 == 0 else "$B")
            flip += 1
        else:
            syms.append("X")
    if decl["style"] == "empty":
        fs = ""
    elif decl["style"] == "named":
        fs = " { " + " ".join("%s: %s" % (f["name"], s) for f, s in zip(decl["fields"], syms)) + " }"
    else:
        fs = "(" + " ".join(("" if f["used"] else "_: ") + s for f, s in zip(decl["fields"], syms)) + ")"
    lines = ["start Root", "terminal Tok {", "    $A: %s" % PAY_A, "    $B: %s" % PAY_B, "}", "struct X { a: $A }"]
    if decl["ctor"] == "struct":
        lines.append("struct Pat%s" % fs)
    else:
        lines += ["enum Pat {", "    V%s" % fs, "    W($B $B $B $B)", "}"]
    lines.append("struct Root { p: Pat }")
    return "\n".join(lines) + "\n", syms


def expected_fields(shape, decl, syms, ttypes):
    used_syms = [s for f, s in zip(decl["fields"], syms) if f["used"]]
    out = []
    for f, s in zip(shape["fields"], used_syms):
        ty = "Box<%s>" % s if f["box"] else ttypes[s]
        out.append({"pub": f["pub"], "name": f["name"], "ty": ty})
    return out


def compare_item(items, decl, shape, syms, ttypes):
    pat = [it for it in items if it["name"] == "Pat"]
    if len(pat) != 1:
        return "type Pat is declared %d times" % len(pat)
    it = pat[0]
    if decl["ctor"] == "struct":
        if it["kind"] != "struct":
            return "Pat should be a struct"
        got_form, got_fields = it["form"], it["fields"]
    else:
        if it["kind"] != "enum" or [v["name"] for v in it["variants"]] != ["V", "W"]:
            return "Pat should be an enum with variants V, W in this order"
        got_form, got_fields = it["variants"][0]["form"], it["variants"][0]["fields"]
    exp = expected_fields(shape, decl, syms, ttypes)
    if got_form != shape["form"]:
        return "form %s, specification says %s" % (got_form, shape["form"])
    if got_fields != exp:
        return "fields %r, specification says %r" % (got_fields, exp)
    return None


def module_level_checks(items, sig, nts, tenum, ts, ttypes, start):
    """Terminal enum first, then every nonterminal, pub, declared order; terminal variants in order with payload types;
    parse signature."""
    names = [it["name"] for it in items]
    if names != [tenum] + nts:
        return "emitted types %r, declarations %r" % (names, [tenum] + nts)
    te = items[0]
    if te["kind"] != "enum":
        return "terminal declaration is not emitted as an enum"
    exp = [{"name": t[1:], "form": "tuple", "fields": [{"pub": False, "name": "", "ty": ttypes[t]}]} for t in ts]
    if te["variants"] != exp:
        return "terminal enum variants %r, declarations %r" % (te["variants"], exp)
    m = re.match(r"^pub fn parse<(\w+)>\(src: (\w+)\) -> Result<(\w+), Option<(\w+)>> where (\w+): IntoIterator<Item = (\w+)> \{$", sig)
    if not m:
        return "unexpected parse signature %r" % sig
    p1, p2, st, t1, p3, t2 = m.groups()
    if not (p1 == p2 == p3) or st != start or t1 != tenum or t2 != tenum:
        return "parse signature %r does not take IntoIterator<Item = %s> and return Result<%s, Option<%s>>" % (sig, tenum, start, tenum)
    if p1 in nts or p1 == tenum:
        # the generic parameter shadows a declared type: `Result<S, ..>` / `Item = T` then name the parameter, not the type
        return "the type parameter %s of parse shadows the declared type of the same name, so %r does not name the start type / terminal enum" % (p1, sig)
    return None


def construct_expr(m, G, pres, sym, depth=0):
    """A Rust expression constructing SOME value of nonterminal sym (shortest rule first); None if none exists within depth."""
    by = grammar.group_rules(G)
    idxs = sorted(by.get(sym, []), key=lambda i: len(G["rules"][i]["rhs"]))
    if depth > 6:
        return None
    for i in idxs:
        p = pres["rules"][i]
        rhs = G["rules"][i]["rhs"]
        parts = []
        ok = True
        for j, x in enumerate(rhs):
            if not p["mask"][j]:
                continue
            if x in G["ts"]:
                e = "<%s as Pay>::mk(7)" % pres["ttypes"][x]
            else:
                sub = construct_expr(m, G, pres, x, depth + 1)
                if sub is None:
                    ok = False
                    break
                e = "Box::new(%s)" % sub
            parts.append((j, e))
        if not ok:
            continue
        ctor = "%s::%s" % (m, sym) if p["struct"] else "%s::%s::%s" % (m, sym, p["vname"])
        if not parts:
            return ctor
        if p["style"] == "named":
            return ctor + " { " + ", ".join("%s: %s" % (p["fnames"][j], e) for j, e in parts) + " }"
        return ctor + "(" + ", ".join(e for _, e in parts) + ")"
    return None


def client_src(k, G, pres, tenum="Tok"):
    """Client code in another module: constructs every constructible nonterminal, destructures exactly (via the walker of
    emitted.py), builds every token, uses parse as fn pointer and with two iterator types."""
    m = "g%d" % k
    out = [emitted.walker_src(k, G, pres)]
    body = []
    for A in pres["nts"]:
        e = construct_expr(m, G, pres, A)
        if e is not None:
            body.append("    let v: %s::%s = %s; let _ = show_%s_%s(&v);" % (m, A, e, m, A))
    for t in pres["ts"]:
        body.append("    let _t: %s::%s = %s::%s::%s(<%s as Pay>::mk(1));" % (m, tenum, m, tenum, t[1:], pres["ttypes"][t]))
    st = G["start"]
    body.append("    let _f: fn(Vec<%s::%s>) -> Result<%s::%s, Option<%s::%s>> = %s::parse;" % (m, tenum, m, st, m, tenum, m))
    body.append("    fn takes<I: IntoIterator<Item = %s::%s>>(i: I) -> Result<%s::%s, Option<%s::%s>> { %s::parse(i) }" % (m, tenum, m, st, m, tenum, m))
    body.append("    let _ = takes(std::iter::empty()); let _ = takes(Vec::<%s::%s>::new().into_iter().rev()); let _ = takes(None);" % (m, tenum))
    out.append("pub fn client_%s() {\n%s\n}" % (m, "\n".join(body)))
    return "\n".join(out)


def compile_clients(cases, wd):
    """cases: dicts with rust, G, pres. One crate, type-check only. Returns None or (stderr)."""
    os.makedirs(wd, exist_ok=True)
    main = [emitted.GLUE_PRELUDE]
    for k, c in enumerate(cases):
        with open(os.path.join(wd, "g%d.rs" % k), "w") as f:
            f.write(c["rust"])
        main.append("mod g%d;" % k)
        main.append(client_src(k, c["G"], c["pres"]))
    main.append("fn main() { %s }" % " ".join("client_g%d();" % k for k in range(len(cases))))
    with open(os.path.join(wd, "main.rs"), "w") as f:
        f.write("\n".join(main))
    p = subprocess.run(["rustc", "--edition", "2021", "--emit=metadata", "-o", os.path.join(wd, "out.rmeta"), "main.rs"],
                       cwd=wd, capture_output=True, text=True, timeout=1800)
    return None if p.returncode == 0 else p.stderr


def failing_modules(stderr):
    return sorted(set(int(x) for x in re.findall(r"\bg(\d+)(?:\.rs|::)", stderr)))


def vcase(why, src, **kw):
    return dict({"kind": "shape", "why": "C06: " + why, "src": src, "judged_by": "spec/Emit.tla (Shape) / rustc type-checking of an external client"}, **kw)


def check(prop, tier, seed):
    run = common.Run(prop, tier, seed)
    wd = common.workdir("shapes_%s" % tier)
    common.build_harness()
    rng = random.Random(seed * 37 + 2)
    r = common.tlc("MC_Emit", env={"MODE": "shapes"}, workers=4, timeout=600)
    if r.error:
        raise ToolError("MC_Emit shapes: the shape laws do not hold of Emit!Shape (specification defect):\n" + r.error)
    run.add_tlc(r)
    preds = r.tagged("SHAPE")
    cases = []
    ttypes = {"$A": PAY_A, "$B": PAY_B}
    srcs = []
    for p in preds:
        src, syms = pattern_grammar(p["decl"])
        srcs.append((src, syms))
    resps = common.kv("gen", [{"id": i, "src": s, "want": ["rust", "grammar"]} for i, (s, _) in enumerate(srcs)], timeout=1800)
    for p, (src, syms), o in zip(preds, srcs, resps):
        run.evaluations += 1
        res = o["res"]
        if res["t"] != "ok":
            # C06 speaks about what IS emitted; whether this file should have been accepted is C04/C09/C10's business
            run.notes["pattern_grammars_rejected_by_generate"] = run.notes.get("pattern_grammars_rejected_by_generate", 0) + 1
            continue
        run.traces += 1
        items, sig = rustparse.parse_items(res["rust"])
        why = compare_item(items, p["decl"], p["shape"], syms, ttypes)
        if why is None:
            kg = o["grammar"]
            why = module_level_checks(items, sig, kg["nts"], kg["tenum"], kg["ts"], dict(zip(kg["ts"], kg["ttypes"])), kg["start"])
        if why:
            run.violation(vcase(why, src, decl=p["decl"], predicted=p["shape"]))
        kg = o["grammar"]
        G = {"nts": kg["nts"], "ts": kg["ts"], "start": kg["start"], "rules": [{"lhs": x["lhs"], "rhs": x["rhs"]} for x in kg["rules"]]}
        pres = {"nts": kg["nts"], "ts": kg["ts"], "ttypes": dict(zip(kg["ts"], kg["ttypes"])),
                "rules": {i: dict(struct=x["ctor"] == "struct", vname=x["vname"], style=x["style"], mask=x["mask"],
                                  fnames=[n or "" for n in x["fnames"]]) for i, x in enumerate(kg["rules"])}}
        cases.append({"rust": res["rust"], "G": G, "pres": pres, "src": src})
        run.nontrivial.add(json.dumps(p["decl"], sort_keys=True))
    run.sample({"src": srcs[len(srcs) // 2][0], "predicted_shape": preds[len(preds) // 2]["shape"]})
    # seeded random larger grammars: module-level checks + client
    extra = []
    named = []
    for _ in range(160 if tier == "quick" else 8000):
        G = pipeline.random_grammar(rng, max_nts=5, max_ts=4, max_rules=10, max_rhs=6)
        pres = grammar.present(G, rng, payload=None)
        for t in pres["ts"]:
            pres["ttypes"][t] = rng.choice(emitted.PAYLOAD_TYPES)
        extra.append({"G": G, "pres": pres, "src": grammar.render(G, pres, attrs=False)})
    # names a generator is tempted to use for parse's own type parameter, as start symbol / other nonterminal / terminal
    # enum, for a struct, an ordinary enum and a VARIANT-LESS enum (no production, still a declared type)
    for nm in ("S", "T", "I", "Iter", "Item", "Src", "S2", "T2"):
        for decl in ("struct %s { a: $A }", "enum %s { V($A) W }", "enum %s {}"):
            for role in ("start", "other", "tenum"):
                if role == "tenum":
                    src = "start Root\nstruct Root { a: $A }\nterminal %s { $A: u32 }\n" % nm
                    G0 = {"nts": ["Root"], "ts": ["$A"], "start": "Root", "rules": [{"lhs": "Root", "rhs": ["$A"]}]}
                    pres0 = {"nts": ["Root"], "ts": ["$A"], "ttypes": {"$A": "u32"}, "tenum": nm}
                    if decl != "struct %s { a: $A }":
                        continue
                elif role == "start":
                    src = "start %s\n%s\nterminal Tok { $A: u32 }\n" % (nm, decl % nm)
                    G0 = {"nts": [nm], "ts": ["$A"], "start": nm, "rules": []}
                    pres0 = {"nts": [nm], "ts": ["$A"], "ttypes": {"$A": "u32"}, "tenum": "Tok"}
                else:
                    src = "start Root\nstruct Root { a: $A }\n%s\nterminal Tok { $A: u32 }\n" % (decl % nm)
                    G0 = {"nts": ["Root", nm], "ts": ["$A"], "start": "Root", "rules": []}
                    pres0 = {"nts": ["Root", nm], "ts": ["$A"], "ttypes": {"$A": "u32"}, "tenum": "Tok"}
                named.append({"G": G0, "pres": pres0, "src": src})
    nresps = common.kv("gen", [{"id": i, "src": c["src"], "want": ["rust"]} for i, c in enumerate(named)], timeout=600)
    for c, o in zip(named, nresps):
        if o["res"]["t"] != "ok":
            continue
        run.evaluations += 1
        run.traces += 1
        items, sig = rustparse.parse_items(o["res"]["rust"])
        why = module_level_checks(items, sig, c["pres"]["nts"], c["pres"]["tenum"], c["pres"]["ts"], c["pres"]["ttypes"], c["G"]["start"])
        if why:
            run.violation(vcase(why, c["src"]))
        run.nontrivial.add(("named-like-a-type-parameter", c["src"]))
    resps = common.kv("gen", [{"id": i, "src": c["src"], "want": ["rust", "grammar"]} for i, c in enumerate(extra)], timeout=1800)
    for c, o in zip(extra, resps):
        if o["res"]["t"] != "ok":
            continue
        run.evaluations += 1
        run.traces += 1
        c["rust"] = o["res"]["rust"]
        items, sig = rustparse.parse_items(c["rust"])
        why = module_level_checks(items, sig, c["pres"]["nts"], "Tok", c["pres"]["ts"], c["pres"]["ttypes"], c["G"]["start"])
        if why is None:
            why = compare_random(items, c)
        if why:
            run.violation(vcase(why, c["src"]))
        cases.append(c)
    # (ii) the external client
    for lo in range(0, len(cases), 400):
        sub = cases[lo:lo + 400]
        err = compile_clients(sub, os.path.join(wd, "client_%d" % lo))
        if err:
            bad = failing_modules(err)
            if not bad:
                raise ToolError("client crate does not type-check, cannot attribute:\n" + err[:4000])
            for k in bad[:10]:
                first = next((ln for ln in err.split("\n\n") if ("g%d.rs" % k) in ln or ("g%d::" % k) in ln), "")
                run.violation(vcase("an external client that constructs/destructures the emitted types exactly and calls parse does not type-check: %s" % first[:600],
                                    sub[k]["src"]))
    run.notes["clients_type_checked"] = len(cases)
    run.rule = "distinct fieldset patterns (ctor, style, per-field used/terminal) whose emitted shape was parsed back and compared and whose external client type-checked"
    run.exhaustive = True
    run.assumptions = ["TLC/CommunityModules", "rustc as the type checker of the client", "line-based parser of the emitted type region (FormatDrift = tool error)"]
    return run.finish()


def compare_random(items, c):
    """Every rule of a random grammar against Emit!Shape's law, computed here from the same definition (the TLC-checked
    prediction covers the pattern universe; beyond it the law is applied structurally)."""
    G, pres = c["G"], c["pres"]
    by = grammar.group_rules(G)
    byname = {it["name"]: it for it in items}
    for A in pres["nts"]:
        it = byname[A]
        idxs = by.get(A, [])
        is_struct = bool(idxs) and pres["rules"][idxs[0]]["struct"]
        if (it["kind"] == "struct") != is_struct:
            return "%s: struct/enum kind differs" % A
        if not is_struct and [v["name"] for v in it["variants"]] != [pres["rules"][i]["vname"] for i in idxs]:
            return "%s: variants not in declaration order" % A
        for n, i in enumerate(idxs):
            p = pres["rules"][i]
            rhs = G["rules"][i]["rhs"]
            used = [j for j in range(len(rhs)) if p["mask"][j]]
            exp_form = "unit" if not used else ("braced" if p["style"] == "named" else "tuple")
            exp = [{"pub": is_struct, "name": p["fnames"][j] if p["style"] == "named" else "",
                    "ty": pres["ttypes"][rhs[j]] if rhs[j] in G["ts"] else "Box<%s>" % rhs[j]} for j in used]
            got = it if is_struct else it["variants"][n]
            if got["form"] != exp_form or got["fields"] != exp:
                return "%s rule %d: emitted %s %r, declaration implies %s %r" % (A, i + 1, got["form"], got["fields"], exp_form, exp)
    return None


def replay(prop, path):
    case = json.load(open(path))
    o = common.kv("gen", [{"id": 0, "src": case["src"], "want": ["rust", "grammar"]}])[0]
    if o["res"]["t"] != "ok":
        return 0
    items, sig = rustparse.parse_items(o["res"]["rust"])
    if "decl" in case:
        _, syms = pattern_grammar(case["decl"])
        why = compare_item(items, case["decl"], case["predicted"], syms, {"$A": PAY_A, "$B": PAY_B})
        if why:
            log(why)
            print("VIOLATION property=%s replay=%s" % (prop, path))
            return 1
    kg = o["grammar"]
    G = {"nts": kg["nts"], "ts": kg["ts"], "start": kg["start"], "rules": [{"lhs": x["lhs"], "rhs": x["rhs"]} for x in kg["rules"]]}
    pres = {"nts": kg["nts"], "ts": kg["ts"], "ttypes": dict(zip(kg["ts"], kg["ttypes"])),
            "rules": {i: dict(struct=x["ctor"] == "struct", vname=x["vname"], style=x["style"], mask=x["mask"],
                              fnames=[n or "" for n in x["fnames"]]) for i, x in enumerate(kg["rules"])}}
    wd = common.workdir("shapes_replay")
    err = compile_clients([{"rust": o["res"]["rust"], "G": G, "pres": pres}], os.path.join(wd, "client"))
    if err:
        log(err[:1500])
        print("VIOLATION property=%s replay=%s" % (prop, path))
        return 1
    return 0
