"""Engine `attrs`: C12 (outer attributes are reproduced verbatim on the matching emitted type).

Design level: MC_Attrs - for every attribute body of at most K atoms the declarative lexical rules decide whether
`#[body]` is exactly one attribute token spanning the whole text (or which lexical errors are admissible);
MC_Emit MODE=attrs - the emitter's layout satisfies the placement law Emit!AttrPlacementOK.
Conformance (A): every single-attribute body is attached (made unique by a counter inside the attribute) to a struct, an
enum and the terminal declaration of a small grammar, 0-3 attributes per declaration; in the real emitted text the lines
immediately before `pub struct N` / `pub enum N` must be exactly the declaration's attributes, byte for byte and in
order, and each attribute must occur exactly once in the whole output.  Bodies that are not a single attribute must
give an admissible lexical error.
"""
import json, os, random
import common, rustparse
from common import ToolError, log


def s_of(cps):
    return "".join(chr(c) for c in cps)


DECLS = ("T", "A", "B", "C", "D", "E")


def build_grammar(attr_lists):
    """attr_lists: full attribute texts per declaration: T terminal enum, A named struct, B enum, C struct WITHOUT any
    fieldset, D tuple struct, E struct whose fields are all `_` (emitted unit-like)."""
    g = lambda n: attr_lists.get(n, [])
    lines = ["start A"]
    lines += g("T") + ["terminal T {", "    $X: ()", "    $Y: ()", "    $Z: ()", "}"]
    lines += g("A") + ["struct A { b: B c: C d: D e: E }"]
    lines += g("B") + ["enum B {", "    V($X)", "    W($Y)", "}"]
    lines += g("C") + ["struct C"]
    lines += g("D") + ["struct D($Z _: $X)"]
    lines += g("E") + ["struct E { _: $X _: $Y _: $Z }"]
    return "\n".join(lines) + "\n"


def vcase(why, src, **kw):
    return dict({"kind": "attrs", "why": "C12: " + why, "src": src, "judged_by": "spec/MC_Attrs.tla (LexRef), spec/Emit.tla (AttrPlacementOK)"}, **kw)


def check_placement(src, attr_lists, rust):
    items, _ = rustparse.parse_items(rust)
    by = {it["name"]: it for it in items}
    for name in DECLS:
        if name not in by:
            return "type %s not emitted" % name
        if by[name]["attrs"] != attr_lists.get(name, []):
            return "attributes before %s are %r, declared %r" % (name, by[name]["attrs"], attr_lists.get(name, []))
    declared = [a for name in DECLS for a in attr_lists.get(name, [])]
    for a in set(declared):
        if rust.count(a) != declared.count(a):
            return "attribute %r occurs %d times in the emitted text, %d times in the declarations" % (a, rust.count(a), declared.count(a))
    return None


def check(prop, tier, seed):
    run = common.Run(prop, tier, seed)
    wd = common.workdir("attrs_%s" % tier)
    common.build_harness()
    rng = random.Random(seed * 43 + 1)
    r = common.tlc("MC_Attrs", env={"K": 3 if tier == "quick" else 4}, workers=8, timeout=6000, xmx="8g")
    if r.error:
        raise ToolError("MC_Attrs failed:\n" + r.error)
    run.add_tlc(r)
    r2 = common.tlc_ok("MC_Emit", env={"MODE": "attrs"}, workers=2, timeout=600)
    run.add_tlc(r2)
    cases = r.tagged("ATTR")
    good = [c for c in cases if c["one"]]
    bad = [c for c in cases if not c["one"]]
    # (1) single attributes: placement, verbatim, exactly once. Each grammar carries up to 3 attributes per declaration.
    counter = [0]

    def mk(body_cps):
        # the unique marker is a plain word or a derive(...) list: attributes must not be treated differently by content
        counter[0] += 1
        return ("#[u%d %s]" if counter[0] % 3 else "#[derive(U%d) %s]") % (counter[0], s_of(body_cps))
    rng.shuffle(good)
    grammars = []
    i = 0
    while i < len(good):
        lists = {}
        used = []
        for name in DECLS:
            n = rng.choice([0, 0, 1, 1, 2, 3])
            lists[name] = []
            for _ in range(n):
                if i < len(good):
                    lists[name].append(mk(good[i]["body"]))
                    used.append(good[i])
                    i += 1
        if used:
            grammars.append((lists, used))
    # one-dimension scale: very long attribute bodies (nested brackets of all three kinds, multi-byte text) and MANY
    # attributes on one declaration; the law (verbatim, in order, exactly once, immediately before the type) does not
    # depend on length, so the same placement check decides
    for rep in range(2 if tier == "quick" else 12):
        lists = {name: [] for name in DECLS}
        big = rng.choice(DECLS)
        for _ in range(40 if tier == "quick" else 150):
            counter[0] += 1
            lists[big].append("#[m%d %s]" % (counter[0], rng.choice(["a", "é", "x(y)", "{z}", "[w]"])))
        for name in DECLS:
            if name != big:
                counter[0] += 1
                unit = rng.choice(["a(é[€{😀}])", "k = \"v\", ", "(x)[y]{z}", "日本語 "])
                lists[name].append("#[l%d %s]" % (counter[0], unit * rng.randint(200, 1500 if tier == "quick" else 8000)))
        grammars.append((lists, []))
    # byte-identical attributes: twice in a row, with another one in between, and the same attribute on two declarations
    # ("several attributes on one declaration ... in the same order" includes equal ones; nothing may be merged)
    for rep in range(6 if tier == "quick" else 60):
        counter[0] += 1
        x, y = "#[r%d %s]" % (counter[0], rng.choice(["a", "doc = \"\"", "é(€)", "cfg_attr(x, y)"])), "#[s%d]" % counter[0]
        shapes_ = [[x, x], [x, y, x], [x, x, x], [y, x, x], [x, x, y]]
        lists = {name: list(rng.choice(shapes_)) if rng.random() < 0.6 else ([x] if rng.random() < 0.5 else []) for name in DECLS}
        if not any(len(v) >= 2 for v in lists.values()):
            lists[rng.choice(DECLS)] = [x, x]
        grammars.append((lists, []))
    srcs = [build_grammar(l) for l, _ in grammars]
    resps = common.kv("gen", [{"id": k, "src": s, "want": ["rust"]} for k, s in enumerate(srcs)], timeout=1800)
    for (lists, used), src, o in zip(grammars, srcs, resps):
        run.evaluations += len(used)
        res = o["res"]
        if res["t"] != "ok":
            run.violation(vcase("a grammar whose attributes are all single balanced one-line attributes is rejected: %s" % json.dumps(res)[:300], src))
            continue
        run.traces += len(used)
        why = check_placement(src, lists, res["rust"])
        if why:
            run.violation(vcase(why, src, attrs=lists))
        for name, l in lists.items():
            for c in used:
                cls = ("multibyte" if any(x > 127 for x in c["body"]) else "ascii", "nested" if sum(1 for x in c["body"] if x in (40, 91, 123)) >= 2 else "flat")
                run.nontrivial.add((name, len(l), cls))
    # (2) bodies that are not one attribute: the real lexer must report an admissible error (or, when the text is
    #     lexically valid as SEVERAL tokens, not glue them into one attribute)
    srcs2 = ["#[" + s_of(c["body"]) + "]" for c in bad]
    toks = common.kv("tokenize", [{"id": k, "src": s, "want": []} for k, s in enumerate(srcs2)], timeout=1800)
    for c, s, o in zip(bad, srcs2, toks):
        run.evaluations += 1
        run.traces += 1
        tr = o["res"]
        if tr["t"] in ("panic", "hang"):
            run.violation(vcase("tokenize did not return on an attribute-like text: %s" % json.dumps(tr)[:200], s))
        elif c["ok"]:
            if tr["t"] != "ok" or len(tr["tokens"]) != c["ntok"]:
                run.violation(vcase("text that is %d tokens by the lexical rules was tokenised differently: %s" % (c["ntok"], json.dumps(tr)[:200]), s))
        else:
            adm = {(e["i"], e["c"]) for e in c["errs"]}
            if tr["t"] != "err" or tr["err"]["v"] != "Lex" or (tr["err"]["i"], tr["err"]["c"]) not in adm:
                run.violation(vcase("unbalanced attribute text: got %s, admissible lexical errors %r" % (json.dumps(tr)[:200], sorted(adm)), s))
    run.sample({"src": srcs[0], "attributes": grammars[0][0]})
    run.notes["single_attribute_bodies"] = len(good)
    run.notes["non_attribute_bodies"] = len(bad)
    run.rule = "distinct (declaration kind, number of attributes on it, body class: ascii/multibyte x flat/nested brackets) combinations emitted and compared byte for byte"
    run.exhaustive = True
    run.assumptions = ["TLC/CommunityModules", "bodies are atom strings (MC_Attrs.BodyAtoms), K = 3 quick / 4 thorough"]
    return run.finish()


def replay(prop, path):
    case = json.load(open(path))
    src = case["src"]
    if "attrs" in case:
        o = common.kv("gen", [{"id": 0, "src": src, "want": ["rust"]}])[0]
        if o["res"]["t"] != "ok" or check_placement(src, case["attrs"], o["res"]["rust"]):
            print("VIOLATION property=%s replay=%s" % (prop, path))
            return 1
        return 0
    log("re-run ./check C12 quick for lexical cases")
    return 0
