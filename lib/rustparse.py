"""Parses the USER-VISIBLE part of an emitted module (the terminal enum, the nonterminal types and the signature of
parse) back into an abstract syntax, line by line. A line the parser does not understand is FormatDrift (a tool error),
never a violation."""
import re
from grammar import FormatDrift

IDENT = r"[A-Za-z_][A-Za-z0-9_]*"


def user_region(text):
    lines = text.split("\n")
    try:
        a = lines.index("#![allow(dead_code)]")
    except ValueError:
        raise FormatDrift("#![allow(dead_code)] not found")
    b = None
    for i in range(a, len(lines)):
        if lines[i].startswith("/// If the parser encounters an unexpected token"):
            b = i
            break
    if b is None:
        raise FormatDrift("doc comment of parse not found")
    sig = None
    for i in range(b, min(b + 6, len(lines))):
        if lines[i].startswith("pub fn parse"):
            sig = lines[i] + " " + lines[i + 1]
            break
    if sig is None:
        raise FormatDrift("parse signature not found")
    return lines[a + 1:b], sig, a + 1


def parse_fields(block, braced):
    """block: the lines between the opening and closing delimiter."""
    out = []
    for ln in block:
        s = ln.strip()
        if not s:
            continue
        if not s.endswith(","):
            raise FormatDrift("field line without trailing comma: %r" % ln)
        s = s[:-1]
        pub = False
        if s.startswith("pub "):
            pub = True
            s = s[4:]
        name = ""
        if braced:
            m = re.match(r"^(%s): (.*)$" % IDENT, s)
            if not m:
                raise FormatDrift("unexpected named field line %r" % ln)
            name, s = m.group(1), m.group(2)
        out.append({"pub": pub, "name": name, "ty": s})
    return out


def parse_items(text):
    """Returns (items, parse_signature). item: {attrs, line (index in the whole text), kind, name, form, fields | variants}."""
    region, sig, base = user_region(text)
    items = []
    i = 0
    pending_attrs = []
    while i < len(region):
        ln = region[i]
        if ln.strip() == "":
            if pending_attrs:
                raise FormatDrift("attribute lines followed by a blank line")
            i += 1
            continue
        if ln.startswith("#["):
            pending_attrs.append(ln)
            i += 1
            continue
        m = re.match(r"^pub (struct|enum) (%s)(.*)$" % IDENT, ln)
        if not m:
            raise FormatDrift("unexpected line in the type region: %r" % ln)
        kind, name, rest = m.groups()
        item = {"attrs": pending_attrs, "line": base + i, "kind": kind, "name": name}
        pending_attrs = []
        if kind == "struct":
            if rest == ";":
                item.update(form="unit", fields=[])
                i += 1
            elif rest == " {" or rest == "(":
                braced = rest == " {"
                close = "}" if braced else ");"
                j = i + 1
                while j < len(region) and region[j] != close:
                    j += 1
                if j == len(region):
                    raise FormatDrift("unterminated struct %s" % name)
                item.update(form="braced" if braced else "tuple", fields=parse_fields(region[i + 1:j], braced))
                i = j + 1
            else:
                raise FormatDrift("unexpected struct header %r" % ln)
        else:
            if rest != " {":
                raise FormatDrift("unexpected enum header %r" % ln)
            j = i + 1
            variants = []
            while j < len(region) and region[j] != "}":
                v = region[j]
                if v.strip() == "":
                    j += 1
                    continue
                mm = re.match(r"^    (%s)(.*)$" % IDENT, v)
                if not mm:
                    raise FormatDrift("unexpected variant line %r" % v)
                vname, vrest = mm.groups()
                if vrest == ",":
                    variants.append({"name": vname, "form": "unit", "fields": []})
                    j += 1
                elif vrest in (" {", "("):
                    braced = vrest == " {"
                    close = "    }," if braced else "    ),"
                    k = j + 1
                    while k < len(region) and region[k] != close:
                        k += 1
                    if k == len(region):
                        raise FormatDrift("unterminated variant %s" % vname)
                    variants.append({"name": vname, "form": "braced" if braced else "tuple", "fields": parse_fields(region[j + 1:k], braced)})
                    j = k + 1
                else:
                    mm2 = re.match(r"^\((.*)\),$", vrest)
                    if mm2 is None:
                        raise FormatDrift("unexpected variant line %r" % v)
                    # terminal enum variant: Name(Type),
                    variants.append({"name": vname, "form": "tuple", "fields": [{"pub": False, "name": "", "ty": mm2.group(1)}]})
                    j += 1
            if j == len(region):
                raise FormatDrift("unterminated enum %s" % name)
            item["variants"] = variants
            i = j + 1
        items.append(item)
    if pending_attrs:
        raise FormatDrift("dangling attribute lines")
    return items, sig


RUST_TOKEN = re.compile(r"\s*(::|[A-Za-z_][A-Za-z0-9_]*|[(),<>])")


def type_tokens(s):
    """Tokenises a Rust type spelled with the Kiki type syntax (idents, ::, <, >, comma, parentheses)."""
    out = []
    pos = 0
    s = s.strip()
    while pos < len(s):
        m = RUST_TOKEN.match(s, pos)
        if not m:
            raise FormatDrift("cannot tokenise type %r at %d" % (s, pos))
        out.append(m.group(1))
        pos = m.end()
    return out
