"""Engine `total`: C07 (generate is total: no panic, abort or hang on any input text within the stated bounds).

Design level: every precondition the Rust code unwraps is an invariant or Assert of the operational specifications and
is model-checked here again on bounded universes: byte accounting of the tokenizer (MC_Lexer!Accounting - the reason
slicing never panics), stack discipline of the parse loop and the pop Asserts (MC_Driver), defined lookups of the table
filler (MC_TableFill!LookupsDefined), termination of the automaton construction and of the parse loop under fairness
(MC_BuilderFifo!Terminates, MC_DriverLive!Terminates).
Conformance: (1) the replay sets of the other engines (all atom strings of MC_Lexer, all files of MC_Validate, the
grammar universe, the front-end witnesses) go through the real generate again, here judged only for "returned Ok or
Err"; (2) seeded random UTF-8 texts obtained by mutating valid files with an alphabet of interesting characters
(every atom, 1-4 byte characters, NEL/LS, NUL, combining marks, `$` toggles) in process under catch_unwind with a 60 s
watchdog; (3) stress inputs at the stated bounds (64 KiB sources, 2000-element lists of every syntactic kind, type
nesting 256, unproductive / unreachable / variant-less / terminal-less grammars) in a CHILD PROCESS with the default
8 MiB main-thread stack, so aborts (stack overflow, OOM) are observed; (4) tokenizer traces of fuzz inputs validated
against Lexer.tla.
"""
import json, os, random, subprocess, time
import common, grammar, pipeline, lexer, validate, frontend
from common import ToolError, log


def vcase(why, src, res=None):
    return {"kind": "total", "why": "C07: " + why, "src": src if len(src) < 20000 else src[:20000], "src_len": len(src), "observed": res,
            "judged_by": "generate must return Ok or Err (no panic, abort, hang)"}


def stress_inputs():
    """Inputs at the bounds C07 states (source <= 64 KiB, every syntactic list <= 2000 elements, type nesting <= 256)."""
    out = []
    n = 2000
    out.append(("2000 struct declarations", "start S0\nterminal T { $A: () }\n" + "".join("struct S%d { a: $A }\n" % i for i in range(n))))
    out.append(("2000-deep chain of nonterminals", "start S0\nterminal T { $A: () }\n" + "".join("struct S%d { n: S%d }\n" % (i, i + 1) for i in range(n - 1)) + "struct S%d { a: $A }\n" % (n - 1)))
    out.append(("2000 enum variants", "start S\nterminal T { $A: () $B: () }\nenum S {\n" + "".join("V%d(%s)\n" % (i, " ".join("$A" if (i >> b) & 1 else "$B" for b in range(11))) for i in range(n)) + "}\n"))
    out.append(("2000 named fields", "start S\nterminal T { $A: () }\nstruct S {\n" + "".join("f%d: $A\n" % i for i in range(n)) + "}\n"))
    out.append(("2000 tuple fields", "start S\nterminal T { $A: () }\nstruct S(" + " ".join("$A" if i % 3 else "_: $A" for i in range(n)) + ")\n"))
    out.append(("2000 terminals", "start S\nterminal T {\n" + "".join("$A%d: ()\n" % i for i in range(n)) + "}\nstruct S { a: $A0 }\n"))
    out.append(("2000 attributes on one declaration", "start S\nterminal T { $A: () }\n" + "#[a]\n" * n + "struct S { a: $A }\n"))
    out.append(("2000 path segments", "start S\nterminal T { $A: " + "::".join(["a"] * n) + " }\nstruct S { a: $A }\n"))
    out.append(("2000 type arguments", "start S\nterminal T { $A: a<" + ", ".join(["b"] * n) + "> }\nstruct S { a: $A }\n"))
    out.append(("type nesting 256", "start S\nterminal T { $A: " + "a<" * 256 + "()" + ">" * 256 + " }\nstruct S { a: $A }\n"))
    out.append(("64 KiB of comment with multi-byte characters", "// " + "é€😀" * 7000 + "\nstart S\nterminal T { $A: () }\nstruct S { a: $A }\n"))
    out.append(("64 KiB attribute", "start S\nterminal T { $A: () }\n#[doc = \"" + "é(" * 10000 + ")" * 10000 + "\"]\nstruct S { a: $A }\n"))
    out.append(("60 KiB of opening brackets in an attribute", "#[" + "(" * 60000))
    out.append(("64 KiB of one identifier", "start " + "a" * 65000))
    out.append(("2000 start declarations", "start S\n" * n + "terminal T {}\nstruct S\n"))
    out.append(("2000 terminal enums", "start S\nstruct S\n" + "terminal T {}\n" * n))
    # cost of the automaton construction grows like n^4 in the number of alternatives (measured: 40 -> 0.04 s, 80 -> 0.6 s,
    # 120 -> 2.9 s, 300 -> minutes); that is a performance characteristic, not a totality defect, so the stress case stays
    # at a size that finishes well inside the watchdog
    out.append(("right-recursive list grammar with 120 alternatives (large automaton)", "start L\nterminal T {\n" + "".join("$A%d: ()\n" % i for i in range(120)) + "}\nenum L {\nNil\n" + "".join("C%d($A%d L)\n" % (i, i) for i in range(120)) + "}\n"))
    out.append(("all nonterminals unproductive", "start S\nterminal T { $A: () }\nstruct S { s: S2 a: $A }\nstruct S2 { s: S }\n"))
    out.append(("no terminals, variant-less start", "start S\nenum S {}\nterminal T {}\n"))
    out.append(("user identifiers equal to the generator's names and their numbered fallbacks",
                "start S\nstruct S { a: S2 b: S3 }\nstruct S2 { n: Node }\nstruct S3\nenum Node { Node2(State) Node3 }\nenum State { State2 }\n"
                "terminal Quasiterminal { $Eof: () $Eof2: () $Eof3: () $Quasiterminal2: () $ACTION_TABLE: () $ACTION_TABLE2: () $GOTO_TABLE: () $GOTO_TABLE2: () "
                "$RuleKind: () $RuleKind2: () $Action: () $Action2: () $NonterminalKind: () $NonterminalKind2: () $QuasiterminalKind: () $QuasiterminalKind2: () }\n"))
    return [(name, s) for name, s in out if len(s.encode("utf-8")) <= 66000 or "KiB" in name]


def child_gen(src, timeout=120):
    """Runs generate in a child process on the default main-thread stack. Returns (class, detail)."""
    t0 = time.time()
    try:
        p = subprocess.run([common.KV, "child-gen"], input=src, capture_output=True, text=True, timeout=timeout)
    except subprocess.TimeoutExpired:
        return "hang", "no result after %d s" % timeout
    if p.returncode != 0:
        return "abort", "exit status %d: %s" % (p.returncode, (p.stderr or "")[-300:])
    try:
        o = json.loads(p.stdout.strip().split("\n")[-1])
    except Exception:
        return "abort", "unparsable output: %r" % p.stdout[-200:]
    return o["t"], o


def check(prop, tier, seed):
    run = common.Run(prop, tier, seed)
    wd = common.workdir("total_%s" % tier)
    common.build_harness()
    rng = random.Random(seed * 61 + 13)
    outcomes = set()

    def judge_batch(label, srcs, resps):
        for s, o in zip(srcs, resps):
            run.evaluations += 1
            run.traces += 1
            res = o["res"]
            cls = res["t"] if res["t"] != "err" else res["err"]["v"]
            outcomes.add((label, cls))
            if res["t"] not in ("ok", "err"):
                run.violation(vcase("generate did not return Ok or Err: %s" % json.dumps(res)[:300], s, res))

    # (1) the other engines' replay sets
    lex_cases = lexer.mc_cases(3, "all", wd, run) + lexer.mc_cases(3, "sweep", wd, run)
    srcs = [lexer.cps_to_str(c["src"]) for c in lex_cases]
    judge_batch("lexer-atoms", srcs, common.kv("gen", [{"id": i, "src": s, "want": []} for i, s in enumerate(srcs)], timeout=3000))
    r = common.tlc("MC_Validate", env={"DEPTH": 2, "PRINT": "1"}, workers=8, timeout=6000, xmx="8g")
    if r.error:
        raise ToolError("MC_Validate failed:\n" + r.error[:2000])
    run.add_tlc(r)
    srcs = [validate.render(c["f"], rng)[0] for c in r.tagged("FILE")]
    judge_batch("validate-files", srcs, common.kv("gen", [{"id": i, "src": s, "want": []} for i, s in enumerate(srcs)], timeout=3000))
    gs, rr = pipeline.dump_universe("U2", wd)
    run.add_tlc(rr)
    cl, rr = pipeline.dump_universe("classics", wd)
    run.add_tlc(rr)
    srcs = [grammar.render(G, grammar.present(G, rng, payload=None)) for G in cl + gs]
    judge_batch("grammar-universe", srcs, common.kv("gen", [{"id": i, "src": s, "want": []} for i, s in enumerate(srcs)], timeout=3000))
    # front-end shaped random files
    srcs = []
    for _ in range(1500 if tier == "quick" else 30000):
        w = frontend.random_valid_tokens(rng)
        if rng.random() < 0.6 and w:
            j = rng.randrange(len(w))
            w[j:j + 1] = [rng.choice(list(frontend.LEXEMES))] * rng.choice([0, 1, 2])
        srcs.append(frontend.render(w, rng)[0])
    judge_batch("frontend-files", srcs, common.kv("gen", [{"id": i, "src": s, "want": []} for i, s in enumerate(srcs)], timeout=3000))
    # (2) mutation fuzzing in process (Rust side, watchdog inside kv)
    n = 40000 if tier == "quick" else 1500000
    p = subprocess.run([common.KV, "total", str(seed), str(n), "/repo/kiki/src", "/repo/kiki_e2e_test/src"], capture_output=True, text=True, timeout=20000)
    if p.returncode != 0:
        run.violation(vcase("the fuzzing process died (abort) with status %d: %s" % (p.returncode, p.stderr[-300:]), ""))
    summary = None
    for line in p.stdout.split("\n"):
        if not line.strip():
            continue
        o = json.loads(line)
        if o.get("summary"):
            summary = o
        else:
            run.violation(vcase("generate %s on a mutated file: %s %s" % ("panicked" if o["t"] == "panic" else "did not return", o.get("msg", ""), o.get("loc", "")), o["src"], o))
    if summary is None:
        raise ToolError("kv total printed no summary")
    run.evaluations += summary["count"]
    for cls in summary.get("classes", {}):
        outcomes.add(("fuzz", cls))
    run.notes["fuzz"] = summary
    # (3) stress inputs at the bounds, in a child process with the default stack
    for name, s in stress_inputs():
        cls, detail = child_gen(s, timeout=180)
        run.evaluations += 1
        run.traces += 1
        outcomes.add(("stress", name, cls))
        if cls not in ("ok", "err"):
            run.violation(vcase("%s: generate in a child process with the default stack ended as %s (%s)" % (name, cls, json.dumps(detail)[:300]), s, detail))
        else:
            run.notes.setdefault("stress_ms", {})[name] = detail.get("ms")
    # (4) tokenizer traces of fuzz-like inputs against Lexer.tla (byte accounting on real multi-byte input)
    corpus = lexer.repo_sources()
    fuzz = [lexer.random_source(rng, corpus) for _ in range(300 if tier == "quick" else 3000)]
    toks = common.kv("tokenize", [{"id": i, "src": s, "want": ["lexev"]} for i, s in enumerate(fuzz)], timeout=1800)
    for s, t in zip(fuzz, toks):
        if t["res"]["t"] in ("panic", "hang"):
            run.violation(vcase("tokenize did not return: %s" % json.dumps(t["res"])[:200], s, t["res"]))
    rej = lexer.validate_traces(fuzz, toks, wd, run)
    for i, ev in rej:
        print("CONFORMANCE-DRIFT property=C07 tokenizer state differs from Lexer.tla at %s" % json.dumps(ev)[:200])
    # (5) whole generate calls as behaviours of Generate.tla: which intermediates exist must be exactly what the result class
    #     implies (stage order, first error wins) - repository fixtures, should_fail files, a slice of the fuzz inputs
    gsrcs = list(corpus) + fuzz[:300]
    for d, _, fs in os.walk("/repo/kiki/src/examples/should_fail"):
        gsrcs += [open(os.path.join(d, f), encoding="utf-8").read() for f in sorted(fs) if f.endswith(".kiki")]
    gres = common.kv("gen", [{"id": i, "src": s, "want": ["have"]} for i, s in enumerate(gsrcs)], timeout=1800)
    tpath = os.path.join(wd, "generate_trace.ndjson")
    kept = []
    with open(tpath, "w") as f:
        for s, o in zip(gsrcs, gres):
            res = o["res"]
            if res["t"] not in ("ok", "err") or "have" not in o:
                continue
            f.write(json.dumps({"ev": "run", "have": o["have"], "result": "ok" if res["t"] == "ok" else res["err"]["v"]}) + "\n")
            kept.append(s)
    rg = common.tlc("GenerateTrace", env={"TRACE": tpath}, workers=1, timeout=1200, deque=True, xmx="2g")
    run.add_tlc(rg)
    if rg.tagged_raw("TRACE-ACCEPTED"):
        run.traces += len(kept)
    else:
        rej = rg.tagged_raw("TRACE-REJECTED")
        if not rej:
            raise ToolError("GenerateTrace neither accepted nor rejected:\n" + (rg.error or rg.out[-1500:]))
        import re as _re
        ln = int(_re.match(r'^<<"TRACE-REJECTED", (\d+)', rej[0]).group(1))
        print("CONFORMANCE-DRIFT property=C07 a generate call is not a behaviour of Generate.tla (stage order / error class): %s" % rej[0][:300])
        run.notes["generate_trace_drift"] = {"line": ln, "src": kept[ln - 1][:500] if ln - 1 < len(kept) else None}
    rmc = common.tlc_ok("Generate", cfg="MC_Generate", workers=1, timeout=120)
    run.add_tlc(rmc)
    # design level
    if not os.environ.get("VERIF_SKIP_MC"):
        for module, cfg, env in (("MC_Builder", "MC_BuilderFifo", {"UNIVERSE": "U1"}), ("MC_TableFill", "MC_TableFill", {"UNIVERSE": "U1"})):
            rr = common.tlc_ok(module, cfg=cfg, env=env, workers=6, timeout=6000)
            run.add_tlc(rr)
            run.notes[cfg] = {"distinct": rr.distinct}
    run.nontrivial = outcomes
    run.rule = "distinct (input class, outcome / stress case) pairs; evaluations = generate calls (replay sets of the other engines + mutation fuzz + stress inputs)"
    run.sample({"stress_cases": [n for n, _ in stress_inputs()]})
    run.exhaustive = False
    run.assumptions = ["TLC/CommunityModules", "bounds as stated by C07: source <= 64 KiB, lists <= 2000 elements, type nesting <= 256; release build",
                       "`within bounded time` is observed with a watchdog (60 s in process, 180 s per stress case)"]
    return run.finish()


def replay(prop, path):
    case = json.load(open(path))
    src = case["src"]
    cls, detail = child_gen(src, timeout=180)
    log("outcome: %s %s" % (cls, json.dumps(detail)[:300]))
    if cls not in ("ok", "err"):
        print("VIOLATION property=%s replay=%s" % (prop, path))
        return 1
    return 0
