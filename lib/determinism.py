"""Engine `determinism`: C14 (generate is a pure function of its input text).

Design level: MC_TableFill - build_as_is copies the recorded action/goto cells in ANY order (hash-map iteration is
modelled as nondeterministic choice) and every order ends in the same dense table (FillOrderIrrelevant,
FinalTableIsLALR); the conflict scan is an ordered scan over the normalized automaton and does not consult a hash
collection; Oset.tla shows that collecting a hash set into an Oset yields a canonical value.
Conformance: the real generate is run on conflicting grammars (several conflicts), classics, repository files and invalid
files R times in fresh threads (fresh RandomState keys) and in P separate processes; outputs must be byte-identical
(Rust text) or structurally identical ({:?} of the error).  (B) the hook records the order in which build_as_is actually
visited its maps: the number of DISTINCT orders observed is reported, so the run demonstrably exercised different seeds,
and every recorded order is validated as a schedule of TableFill.tla by the pipeline trace validation.
"""
import json, os, random, hashlib
import common, grammar, pipeline, validate
from common import ToolError, log


def corpus(rng, tier, wd, run):
    srcs = []
    gs, r = pipeline.dump_universe("classics", wd)
    run.add_tlc(r)
    for G in gs:
        srcs.append(("classics", grammar.render(G, grammar.present(G, rng))))
    gs, r = pipeline.dump_universe("U2", wd)
    run.add_tlc(r)
    for G in rng.sample(gs, 250 if tier == "quick" else 3000):
        srcs.append(("U2", grammar.render(G, grammar.present(G, rng))))
    for _ in range(60 if tier == "quick" else 600):
        G = pipeline.random_grammar(rng)
        srcs.append(("random", grammar.render(G, grammar.present(G, rng, payload=None))))
    for f in pipeline.repo_grammar_files():
        srcs.append(("repo", open(f, encoding="utf-8").read()))
    for d, _, fs in os.walk("/repo/kiki/src/examples/should_fail"):
        for f in sorted(fs):
            if f.endswith(".kiki"):
                srcs.append(("should_fail", open(os.path.join(d, f), encoding="utf-8").read()))
    for _ in range(100 if tier == "quick" else 1500):
        srcs.append(("invalid", validate.render(validate.random_file(rng), rng)[0]))
    # files with SEVERAL simultaneous violations (two clashing names, two undefined references, ...): which one is reported
    # must not depend on the hash seed. They come from the edit-distance-2 universe of MC_Validate.
    r = common.tlc("MC_Validate", env={"DEPTH": 2, "PRINT": "1"}, workers=8, timeout=6000, xmx="8g")
    if r.error:
        raise ToolError("MC_Validate failed:\n" + r.error[:2000])
    run.add_tlc(r)
    bad = [c["f"] for c in r.tagged("FILE") if c["bad"]]
    for f in rng.sample(bad, min(len(bad), 400 if tier == "quick" else 6000)):
        srcs.append(("edited", validate.render(f, rng)[0]))
    # files with SEVERAL INDEPENDENT violations OF THE SAME KIND (two groups of clashing variants in one enum, two pairs of
    # equal variant names, several undefined references, several clashing top-level names, ...): whichever the
    # implementation reports, it must be the same one under every hash seed
    for _ in range(160 if tier == "quick" else 4000):
        srcs.append(("same-kind", validate.render(same_kind_violations(rng), rng)[0]))
    # scale: tagged unions (lib/scale.py) of 40-120 small grammars - hundreds of states and table cells, and, when several
    # components have conflicts, many conflicts in different states of which always the same one must be reported
    import scale
    u2 = gs
    for n in ((40, 80) if tier == "quick" else (40, 80, 120, 120)):
        comps = [rng.choice(u2) for _ in range(n)]
        U, _ = scale.union(comps)
        srcs.append(("scale-mixed", grammar.render(U, grammar.present(U, rng))))
    quick_ok = common.kv("gen", [{"id": i, "src": grammar.render(G, grammar.present(G, rng)), "want": []} for i, G in enumerate(u2[:1500])])
    lalr = [G for G, o in zip(u2[:1500], quick_ok) if o["res"]["t"] == "ok"]
    if len(lalr) >= 20:
        for n in ((60,) if tier == "quick" else (60, 150)):
            U, _ = scale.union([rng.choice(lalr) for _ in range(n)])
            srcs.append(("scale-accepted", grammar.render(U, grammar.present(U, rng))))
    # grammars with several conflicts in different states: the bracket family of the pipeline engine
    for _ in range(150 if tier == "quick" else 2000):
        G = pipeline.bracket_grammar(rng)
        pres = grammar.present(G, rng)
        pres["ts"] = list(G["ts"])
        srcs.append(("bracket", grammar.render(G, pres)))
    return srcs


def same_kind_violations(rng):
    """An abstract file (validate.render's format) with 2-3 independent instances of ONE kind of violation, in random order."""
    T = ["X", "Y", "Z", "W"]
    fld = lambda sym, dollar, fname="": {"fname": fname, "sym": sym, "dollar": dollar}
    tup = lambda vname, syms: {"vname": vname, "style": "tuple", "fields": [fld(s, d) for s, d in syms]}
    seqs = [[("X", True)], [("Y", True)], [("X", True), ("Y", True)], [("Z", True), ("X", True)], [("A", False)], [("A", False), ("Z", True)], [("W", True)]]
    f = {"starts": ["S"], "tenums": [{"name": "Tok", "vars": list(T)}],
         "nts": [{"kind": "struct", "name": "S", "vars": [tup("", [("E", False), ("A", False)])]},
                 {"kind": "struct", "name": "A", "vars": [tup("", [("X", True)])]}]}
    kind = rng.choice(["seq-clash", "variant-names", "undefined-nt", "undefined-t", "top-names", "lowercase", "starts", "tenums", "field-case", "mixed-dollar"])
    n = rng.choice([2, 2, 3])
    if kind == "seq-clash":
        groups = rng.sample(seqs, n)
        vs = []
        for gi, g in enumerate(groups):
            for k in range(rng.choice([2, 2, 3])):
                vs.append(tup("V%d_%d" % (gi, k), g))
        vs += [tup("Lone", rng.choice([q for q in seqs if q not in groups]))]
        rng.shuffle(vs)
        f["nts"].append({"kind": "enum", "name": "E", "vars": vs})
    elif kind == "variant-names":
        names = rng.sample(["Va", "Vb", "Vc", "Vd"], n)
        qs = rng.sample(seqs, len(seqs))
        vs = [tup(nm, qs[i]) for i, nm in enumerate(names + names)] + [tup("Lone", qs[-1])]
        rng.shuffle(vs)
        f["nts"].append({"kind": "enum", "name": "E", "vars": vs})
    else:
        f["nts"].append({"kind": "enum", "name": "E", "vars": [tup("Va", seqs[0]), tup("Vb", seqs[2])]})
        if kind == "undefined-nt":
            names = rng.sample(["U1", "Q", "Missing", "Nope"], n)
            for i, u in enumerate(names):
                f["nts"].append({"kind": "struct", "name": "R%d" % i, "vars": [tup("", [("X", True), (u, False)])]})
            if rng.random() < 0.5:
                f["nts"][-1]["vars"][0]["fields"].append(fld(rng.choice(names), False))
        elif kind == "undefined-t":
            names = rng.sample(["U1", "Q", "Missing", "Nope"], n)
            f["nts"].append({"kind": "enum", "name": "R", "vars": [tup("K%d" % i, [(u, True)]) for i, u in enumerate(names)]})
        elif kind == "top-names":
            names = rng.sample(["A", "E", "S", "X", "Tok", "Dup"], n)
            for nm in names:
                f["nts"].append({"kind": rng.choice(["struct", "enum"]), "name": nm, "vars": [tup("" , [("Y", True)])]})
                if f["nts"][-1]["kind"] == "enum":
                    f["nts"][-1]["vars"] = [tup("Only", [("Y", True)])]
            if "Dup" in names:
                f["nts"].append({"kind": "struct", "name": "Dup", "vars": [tup("", [("Z", True)])]})
            rng.shuffle(f["nts"])
        elif kind == "lowercase":
            for nm in rng.sample(["foo", "bar", "_x", "baz9"], n):
                f["nts"].append({"kind": "struct", "name": nm, "vars": [tup("", [("Y", True)])]})
            if rng.random() < 0.5:
                f["tenums"][0]["vars"] = f["tenums"][0]["vars"] + rng.sample(["x1", "yy"], 2)
        elif kind == "starts":
            f["starts"] = [rng.choice(["S", "A", "E"]) for _ in range(n + 1)]
        elif kind == "tenums":
            f["tenums"] = [{"name": "Tok%d" % i, "vars": list(T)} for i in range(n)] if rng.random() < 0.7 else []
        elif kind == "field-case":
            f["nts"].append({"kind": "struct", "name": "R", "vars": [{"vname": "", "style": "named",
                             "fields": [fld("X", True, nm) for nm in rng.sample(["Foo", "Bar", "ok", "Baz", "_Q"], n + 1)]}]})
        else:   # `$` on a nonterminal / none on a terminal, several times
            f["nts"].append({"kind": "struct", "name": "R", "vars": [tup("", [(rng.choice(["A", "E", "S"]), True) for _ in range(n)] +
                                                                           [(rng.choice(T), False) for _ in range(n)])]})
    return f


def outcome_digest(res):
    if res["t"] == "ok":
        return "ok:" + hashlib.sha256(res["rust"].encode("utf-8")).hexdigest()
    return json.dumps(res, sort_keys=True)


def check(prop, tier, seed):
    run = common.Run(prop, tier, seed)
    wd = common.workdir("determinism_%s" % tier)
    common.build_harness()
    rng = random.Random(seed * 59 + 1)
    srcs = corpus(rng, tier, wd, run)
    R, P = (8, 4) if tier == "quick" else (32, 12)
    per_process = []
    orders_seen = 0
    multi_order_cases = 0
    import concurrent.futures as cf
    reqs = [{"id": i, "src": s, "want": ["rust"], "reps": R} for i, (_, s) in enumerate(srcs)]
    with cf.ThreadPoolExecutor(max_workers=min(P, 6)) as ex:     # P separate processes, several at a time
        all_resps = list(ex.map(lambda _: common.kv("gen", reqs, timeout=12000), range(P)))
    for p in range(P):
        resps = all_resps[p]
        per_process.append(resps)
        for (origin, s), o in zip(srcs, resps):
            run.evaluations += R + 1
            if o.get("distinct_outcomes", 1) != 1:
                run.violation({"kind": "determinism", "why": "C14: repeated calls of generate in one process (fresh threads, fresh hash seeds) returned %d different results" % o["distinct_outcomes"],
                               "src": s, "outcomes": [x[:300] for x in o.get("outcomes", [])], "judged_by": "equality of results; TableFill.tla (FillOrderIrrelevant)"})
            if p == 0:
                orders_seen += o.get("distinct_orders", 0)
                if o.get("distinct_orders", 0) > 1:
                    multi_order_cases += 1
                    run.nontrivial.add(hashlib.sha1(s.encode()).hexdigest())
    for i, (origin, s) in enumerate(srcs):
        ds = {outcome_digest(per_process[p][i]["res"]) for p in range(P)}
        run.traces += 1
        if len(ds) != 1:
            run.violation({"kind": "determinism", "why": "C14: different processes returned different results for the same text", "src": s,
                           "outcomes": sorted(ds)[:4], "judged_by": "equality of results across processes"})
    if multi_order_cases < 10:
        # not an error of the code under test (a tree that fills its tables from an ordered map has nothing to vary):
        # the evidence then simply shows that no order variation was observed
        log("  note: only %d inputs showed more than one hash-map iteration order of build_as_is" % multi_order_cases)
    run.notes["inputs"] = len(srcs)
    run.notes["repetitions_per_input"] = (R + 1) * P
    run.notes["inputs_with_several_observed_fill_orders"] = multi_order_cases
    run.sample({"src": srcs[5][1], "distinct_fill_orders_observed": per_process[0][5].get("distinct_orders")})
    if not os.environ.get("VERIF_SKIP_MC"):
        # U1 in both tiers: the exploration over U2 (every item order x every fill order of 12 383 grammars, > 10^8 states)
        # belongs to the thorough tier of C04, which owns this model
        r = common.tlc_ok("MC_TableFill", env={"UNIVERSE": "U1"}, workers=6, timeout=6000, coverage=True)
        run.add_tlc(r)
        run.notes["MC_TableFill"] = {"distinct": r.distinct, "generated": r.generated}
    run.rule = "distinct inputs for which the hook observed at least two different hash-map iteration orders of build_as_is among the repetitions while the results were identical; evaluations = generate calls"
    run.exhaustive = False
    run.assumptions = ["TLC/CommunityModules", "std RandomState draws fresh keys per thread and per process", "a finite number of repetitions samples the hash seeds"]
    return run.finish()


def replay(prop, path):
    case = json.load(open(path))
    o = common.kv("gen", [{"id": 0, "src": case["src"], "want": ["rust"], "reps": 64}])[0]
    if o.get("distinct_outcomes", 1) != 1:
        print("VIOLATION property=%s replay=%s" % (prop, path))
        return 1
    return 0
