"""Engine `hygiene`: C05 (the emitted module compiles for any legal user naming, with no trait bounds on payloads).

Design level: MC_Hygiene - the sequential identifier allocator (fresh names pairwise distinct and disjoint from the
user's identifiers) and the scope/namespace model of the emitted module (no duplicate binding in any namespace, the
generic parameter of parse captures nothing, `Self::Error` never ambiguous, locals distinct) for every assignment of pool
names to one role (exhaustive) and to pairs of roles (seeded sample in the quick tier, exhaustive in the thorough tier).
Conformance: every naming is instantiated as a Kiki file and run through the real generate; (B) the names the real
allocator chose (hook event) must equal the specification's; (A) every emitted module is compiled ON ITS OWN by rustc
(so a failure is attributed to one naming) in a crate that defines only derive-less payload types.  rustc is the oracle:
a naming the model calls hygienic that rustc rejects is a violation.
"""
import json, os, random, subprocess, concurrent.futures as cf
import common
from common import ToolError, log

TYPE_POOL = ["Eof", "Eof2", "Quasiterminal", "Quasiterminal2", "QuasiterminalKind", "NonterminalKind", "State", "State2", "Node", "Node2",
             "Action", "RuleKind", "ACTION_TABLE", "GOTO_TABLE", "ACTION_TABLE2", "S", "S2", "T", "Terminal", "Error", "Item", "Shift",
             "Reduce", "Accept", "S0", "R0", "_1", "__", "Self_", "Token"]
ROLES = ["tenum", "t1", "start", "en", "v1", "tu", "un", "em"]
BENIGN = {"tenum": "Tok", "t1": "Ta", "start": "Start0", "en": "En", "v1": "Va", "tu": "Tu", "un": "Un", "em": "Em", "f1": "fld"}


def render(nm):
    """The skeleton of MC_Hygiene!Mk as Kiki text: named-struct start symbol, enum, tuple struct, unit struct, variant-less
    enum (a nonterminal without any production, referenced from one variant of the enum)."""
    st, en, tu, un, em = nm["nts"]
    t1, t2 = nm["terms"]
    lines = ["start %s" % nm["start"],
             "terminal %s {" % nm["tenum"], "    $%s: crate::P" % t1, "    $%s: ()" % t2, "}",
             "struct %s { %s: %s %s: $%s _: $%s }" % (st["name"], st["fields"][0], en["name"], st["fields"][1], t1, t2),
             "enum %s {" % en["name"], "    %s(%s $%s)" % (en["variants"][0], tu["name"], t1), "    %s { x: %s _: $%s y: $%s }" % (en["variants"][1], un["name"], t2, t1),
             "    %s(%s)" % (en["variants"][2], em["name"]), "}",
             "struct %s($%s _: $%s %s)" % (tu["name"], t1, t2, un["name"]),
             "struct %s" % un["name"],
             "enum %s {}" % em["name"]]
    return "\n".join(lines) + "\n"


SPECIALS = [
    # zero terminals / variant-less enums / empty productions: the boundary grammars C01 and C07 name must compile too
    "start S\nstruct S\nterminal T {}\n",
    "start S\nenum S {}\nterminal T {}\n",
    "start S\nenum S {}\nterminal T { $A: crate::P }\n",
    "start S\nstruct S { e: E }\nenum E {}\nterminal T { $A: () }\n",
    "start S\nstruct S(S2 S2)\nstruct S2\nterminal T {}\n",
    "start S\nstruct S(_: $A _: $A)\nterminal T { $A: crate::P }\n",
    "start S\nstruct S { _: $A }\nterminal T { $A: crate::P }\n",
    "start __\nstruct __(_1)\nenum _1 { __ _1($_2) }\nterminal _3 { $_2: crate::P }\n",
    "start S\nenum S { Error Ok2(S $A) }\nterminal T { $A: crate::P  $Error: () }\n",
    "start Eof\nstruct Eof { eof: $Eof2 }\nterminal Terminal { $Eof2: crate::P  $Terminal2: () }\n",
    # wide fieldsets (two-digit field indices) with mixed field types, tuple and named, struct and variant
    "start Row\nstruct Row($A Cell $B _: $A Cell $A $B Cell _: $B $A Cell $B $A)\nstruct Cell { a: $A _: $B }\nterminal T { $A: crate::P $B: () }\n",
    "start Row\nenum Row { V(Cell $A $B $A $A Cell $B $B $A Cell $A $B) W { f0: $A f1: Cell f2: $B f3: $A f4: $A f5: $B f6: Cell f7: $A f8: $B f9: $A f10: Cell f11: $B } }\n"
    "struct Cell($B)\nterminal T { $A: crate::P $B: () }\n",
]


def compile_one(args):
    wd, k, rust = args
    with open(os.path.join(wd, "g%d.rs" % k), "w") as f:
        f.write(rust)
    with open(os.path.join(wd, "main%d.rs" % k), "w") as f:
        # payload type with NO derives; warnings are allowed, errors (incl. deny-by-default lints) are not
        f.write("#![allow(warnings)]\npub struct P(pub u32);\n#[path = \"g%d.rs\"]\nmod g;\nfn main() {}\n" % k)
    p = subprocess.run(["rustc", "--edition", "2021", "--emit=metadata", "-o", os.path.join(wd, "m%d.rmeta" % k), "main%d.rs" % k],
                       cwd=wd, capture_output=True, text=True, timeout=300)
    return k, p.returncode, p.stderr


def vcase(why, src, nm, **kw):
    return dict({"kind": "hygiene", "why": "C05: " + why, "src": src, "naming": nm, "judged_by": "spec/Hygiene.tla + rustc on the real emitted module"}, **kw)


def check(prop, tier, seed):
    run = common.Run(prop, tier, seed)
    wd = common.workdir("hygiene_%s" % tier)
    common.build_harness()
    rng = random.Random(seed * 47 + 3)
    extra = ""
    if tier == "quick":
        extra = os.path.join(wd, "pairs.ndjson")
        seen = set()
        with open(extra, "w") as f:
            # the allocator's own fallback names: a user who has BOTH X and X2 (X a preferred internal name) - always included
            for base in ("Eof", "Quasiterminal", "State", "Node", "ACTION_TABLE", "S"):
                for r1, r2 in (("start", "en"), ("tenum", "tu"), ("t1", "un"), ("en", "t1"), ("un", "start"), ("v1", "en"), ("em", "start"), ("tenum", "em")):
                    a = dict(BENIGN)
                    a[r1], a[r2] = base, base + "2"
                    key = json.dumps(a, sort_keys=True)
                    if key not in seen:
                        seen.add(key)
                        f.write(json.dumps(a) + "\n")
            # the template has a conditional branch for an enum variant called Error: combine it with every preferred
            # internal name (and its first fallback) in every other role
            for other in ("Node", "Node2", "Quasiterminal", "State", "Action", "RuleKind", "NonterminalKind", "QuasiterminalKind", "Eof", "S"):
                for r2 in ("start", "en", "tu", "un", "tenum", "t1", "em"):
                    a = dict(BENIGN)
                    a["v1"], a[r2] = "Error", other
                    key = json.dumps(a, sort_keys=True)
                    if key not in seen:
                        seen.add(key)
                        f.write(json.dumps(a) + "\n")
            n_fixed = len(seen)
            while len(seen) < n_fixed + 300:
                r1, r2 = rng.sample(ROLES, 2)
                a = dict(BENIGN)
                a[r1], a[r2] = rng.choice(TYPE_POOL), rng.choice(TYPE_POOL)
                top = [a["tenum"], a["t1"], "Tb", a["start"], a["en"], a["tu"], a["un"], a["em"]]
                key = json.dumps(a, sort_keys=True)
                if len(set(top)) != 8 or a["v1"] in ("Vb", "Vc") or key in seen:
                    continue
                seen.add(key)
                f.write(json.dumps(a) + "\n")
    r = common.tlc("MC_Hygiene", env={"PAIRS": "0" if tier == "quick" else "1", "EXTRA": extra}, workers=8, timeout=6000, xmx="8g")
    if r.error:
        raise ToolError("MC_Hygiene: the hygiene model is violated for some naming (specification-level finding):\n" + r.error[:3000])
    run.add_tlc(r)
    namings = r.tagged("NAMING")
    srcs = [render(n["nm"]) for n in namings]
    resps = common.kv("gen", [{"id": i, "src": s, "want": ["rust", "names"]} for i, s in enumerate(srcs)], timeout=3000)
    todo = []
    for i, (n, src, o) in enumerate(zip(namings, srcs, resps)):
        run.evaluations += 1
        res = o["res"]
        if res["t"] != "ok":
            run.violation(vcase("generate does not accept a well-formed grammar under this naming: %s" % json.dumps(res)[:300], src, n["nm"]))
            continue
        ev = [e for e in o.get("events", []) if e["ev"] == "names"]
        if len(ev) != 1 or ev[0]["chosen"] != n["chosen"]:
            # allocator drift is decisive only together with a compile failure; report as drift
            print("CONFORMANCE-DRIFT property=C05 the real allocator chose %r, Hygiene.tla predicts %r" % (ev[0]["chosen"] if ev else None, n["chosen"]))
            run.notes["allocator_drift"] = run.notes.get("allocator_drift", 0) + 1
        todo.append((i, res["rust"]))
    sp = common.kv("gen", [{"id": i, "src": x, "want": ["rust"]} for i, x in enumerate(SPECIALS)], timeout=600)
    base = len(namings)
    for i, (x, o) in enumerate(zip(SPECIALS, sp)):
        run.evaluations += 1
        if o["res"]["t"] != "ok":
            run.violation(vcase("generate does not accept a well-formed boundary grammar: %s" % json.dumps(o["res"])[:300], x, None))
            continue
        namings.append({"nm": None, "chosen": None})
        srcs.append(x)
        todo.append((len(namings) - 1, o["res"]["rust"]))
    # rustc, one module at a time, 16 in parallel
    cdir = os.path.join(wd, "rustc")
    os.makedirs(cdir)
    with cf.ThreadPoolExecutor(max_workers=16) as ex:
        results = list(ex.map(compile_one, [(cdir, i, rust) for i, rust in todo]))
    for k, rc, err in results:
        run.traces += 1
        nm = namings[k]["nm"]
        if nm is None:
            run.nontrivial.add(("special", srcs[k]))
            if rc != 0:
                first = next((blk for blk in err.split("\n\n") if blk.startswith("error")), err[:600])
                run.violation(vcase("rustc rejects the emitted module of a boundary grammar: %s" % first[:700], srcs[k], None))
            continue
        hostile = tuple(sorted((role, v) for role, v in (("tenum", nm["tenum"]), ("t1", nm["terms"][0]), ("start", nm["start"]), ("en", nm["nts"][1]["name"]),
                               ("v1", nm["nts"][1]["variants"][0]), ("tu", nm["nts"][2]["name"]), ("un", nm["nts"][3]["name"]), ("em", nm["nts"][4]["name"]), ("f1", nm["nts"][0]["fields"][0]))
                               if v != BENIGN[role]))
        run.nontrivial.add(hostile)
        if rc != 0:
            first = next((blk for blk in err.split("\n\n") if blk.startswith("error")), err[:600])
            run.violation(vcase("rustc rejects the emitted module: %s" % first[:700], srcs[k], nm))
    run.sample({"src": srcs[len(srcs) // 2], "chosen_names": namings[len(srcs) // 2]["chosen"]})
    run.rule = "distinct assignments of hostile pool names to user roles (terminal enum, terminal, start symbol, enum, variant, tuple struct, unit struct, variant-less enum, field) whose real emitted module was compiled on its own by rustc"
    run.exhaustive = tier == "thorough"
    run.notes["modules_compiled"] = len(todo)
    run.assumptions = ["TLC/CommunityModules", "rustc 1.95 is the oracle for `compiles`", "skeleton grammar of MC_Hygiene!Mk; pool of 30 type-level and 12 field-level hostile names",
                       "preconditions of C05: no keywords, no prelude items, distinct field names per fieldset"]
    return run.finish()


def replay(prop, path):
    case = json.load(open(path))
    o = common.kv("gen", [{"id": 0, "src": case["src"], "want": ["rust"]}])[0]
    if o["res"]["t"] != "ok":
        print("VIOLATION property=%s replay=%s" % (prop, path))
        return 1
    wd = common.workdir("hygiene_replay")
    k, rc, err = compile_one((wd, 0, o["res"]["rust"]))
    if rc != 0:
        log(err[:1500])
        print("VIOLATION property=%s replay=%s" % (prop, path))
        return 1
    return 0
