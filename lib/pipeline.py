"""Engine `pipeline`: C04 (LALR(1) verdict), C17 (canonical tables), C11 (conflict witness).

Design level: MC_Builder (worklist construction == LR(1)-merged-by-core under every schedule),
MC_TableFill (ordered conflict scan, hash-order-independent fill).
Conformance: every grammar of the universe goes through the real generate; verdict, tables read back
from the emitted text and from the Table value, automaton and conflict payload are judged by TLC
(PipelineJudge) against LR1.tla; builder and table-fill event traces are validated against the
operational specs (PipelineTrace).
"""
import json, os, random, concurrent.futures as cf
import common, grammar
from common import ToolError, log


def dump_universe(name, wd):
    out = os.path.join(wd, name + ".ndjson")
    r = common.tlc_ok("MC_Universe", env={"UNIVERSE": name, "OUT": out}, workers=1, timeout=600)
    gs = [json.loads(l) for l in open(out) if l.strip()]
    return gs, r


def random_grammar(rng, max_nts=6, max_ts=5, max_rules=14, max_rhs=4):
    nn = rng.randint(1, max_nts)
    nt = rng.randint(0, max_ts)
    nts = ["N%d" % i for i in range(nn)]
    ts = ["$T%d" % i for i in range(nt)]
    rules = []
    budget = rng.randint(1, max_rules)
    for A in nts:
        k = rng.choice([0, 1, 1, 2, 2, 3]) if budget > 0 else 0
        k = min(k, budget)
        budget -= k
        seen = set()
        for _ in range(k):
            n = rng.choice([0, 1, 1, 2, 2, 3, max_rhs])
            pool = nts + ts + ts
            rhs = tuple(rng.choice(pool) for _ in range(n)) if pool else ()
            if rhs in seen:
                continue
            seen.add(rhs)
            rules.append({"lhs": A, "rhs": list(rhs)})
    return {"nts": nts, "ts": ts, "start": nts[0], "rules": rules}


def run_real(cases, want=("grammar", "table", "machine", "rust"), batch=1500):
    """cases: list of dicts with 'src'. Adds 'resp' to each."""
    for lo in range(0, len(cases), batch):
        chunk = cases[lo:lo + batch]
        reqs = [{"id": lo + k, "src": c["src"], "want": list(want)} for k, c in enumerate(chunk)]
        resps = common.kv("gen", reqs, timeout=1200)
        for c, r in zip(chunk, resps):
            c["resp"] = r
    return cases


def obs_record(idx, case):
    """Builds the PipelineJudge record for one executed case; returns (record or None, note)."""
    G, pres, r = case["G"], case["pres"], case["resp"]
    res = r["res"]
    rec = {"id": idx, "g": grammar.tla_grammar(dict(G, nts=pres["nts"], ts=pres["ts"])),
           "tables": [], "machines": [], "conflict": []}
    if res["t"] == "ok":
        rec["verdict"] = "ok"
        why = grammar.same_grammar(G, pres, r["grammar"])
        if why:
            raise ToolError("rendering is not faithful (%s):\n%s" % (why, case["src"]))
        rec["tables"].append(grammar.extract_tables(res["rust"], pres["ts"], pres["nts"]))
        rec["tables"].append(grammar.hook_table(r["table"]))
        rec["machines"].append(r["machine"])
        return rec, None
    if res["t"] == "err" and res["err"]["v"] == "TableConflict":
        e = res["err"]
        rec["verdict"] = "conflict"
        rec["machines"].append(e["machine"])
        rec["conflict"].append({"state": e["state"], "items": e["items"]})
        why = grammar.same_grammar(G, pres, e["file"])
        case["attached_file_mismatch"] = why
        return rec, None
    return None, res


def judge(records, wd, shards=6):
    """Runs PipelineJudge over the records (sharded over several TLC processes). Returns ({id: verdict}, [TlcResult])."""
    shards = max(1, min(shards, len(records) // 50 + 1))
    files = []
    for s in range(shards):
        p = os.path.join(wd, "obs_%d.ndjson" % s)
        with open(p, "w") as f:
            for rec in records[s::shards]:
                f.write(json.dumps(rec) + "\n")
        files.append(p)

    def one(p):
        return common.tlc("PipelineJudge", env={"OBS": p}, workers=1, timeout=3000, xmx="3g")
    with cf.ThreadPoolExecutor(max_workers=shards) as ex:
        results = list(ex.map(one, files))
    verdicts = {}
    for r in results:
        if r.error:
            raise ToolError("PipelineJudge failed:\n" + r.error)
        for j in r.tagged("JUDGE"):
            verdicts[j["id"]] = j
    if len(verdicts) != len(records):
        raise ToolError("PipelineJudge judged %d of %d records" % (len(verdicts), len(records)))
    return verdicts, results


def build_cases(tier, seed, wd, run):
    rng = random.Random(seed)
    cases = []
    tlc_results = []
    universes = ["classics", "U2"] if tier == "quick" else ["classics", "U2", "U3a", "U3b"]
    for u in universes:
        gs, r = dump_universe(u, wd)
        tlc_results.append(r)
        for G in gs:
            pres = grammar.present(G, rng)
            # vary declaration order of nonterminals (start need not come first) and terminals
            if rng.random() < 0.3:
                rng.shuffle(pres["nts"])
                G = reorder_rules(G, pres["nts"])
                pres = grammar.present(G, rng)
            if rng.random() < 0.3:
                rng.shuffle(pres["ts"])
            cases.append({"G": G, "pres": pres, "src": grammar.render(G, pres), "origin": u})
    nrand = 150 if tier == "quick" else 2500
    for _ in range(nrand):
        G = random_grammar(rng)
        pres = grammar.present(G, rng, payload=None)
        cases.append({"G": G, "pres": pres, "src": grammar.render(G, pres), "origin": "random"})
    return cases, tlc_results


def reorder_rules(G, order):
    rules = []
    for A in order:
        rules += [r for r in G["rules"] if r["lhs"] == A]
    return dict(G, rules=rules)


def execute(tier, seed, run, wd):
    """Shared by C04, C11, C17: returns (cases, verdicts)."""
    common.build_harness()
    cases, tlcs = build_cases(tier, seed, wd, run)
    for r in tlcs:
        run.add_tlc(r)
    run_real(cases)
    records = []
    for idx, c in enumerate(cases):
        rec, other = obs_record(idx, c)
        c["rec"] = rec
        c["other"] = other
        if rec is not None:
            records.append(rec)
    verdicts, results = judge(records, wd, shards=8 if tier == "quick" else 12)
    for r in results:
        run.add_tlc(r)
    for idx, c in enumerate(cases):
        c["judge"] = verdicts.get(idx)
    return cases


def replay_case(c, why, kind):
    return {"kind": kind, "why": why, "src": c["src"], "grammar": c["G"], "origin": c["origin"],
            "observed": summarize(c["resp"]["res"]), "judged_by": "spec/PipelineJudge.tla over spec/LR1.tla"}


def summarize(res):
    if res["t"] == "ok":
        return {"t": "ok"}
    if res["t"] == "err" and res["err"]["v"] == "TableConflict":
        e = res["err"]
        return {"t": "conflict", "state": e["state"], "items": e["items"]}
    return res


def check(prop, tier, seed):
    run = common.Run(prop, tier, seed)
    wd = common.workdir("pipeline_%s_%s" % (prop, tier))
    cases = execute(tier, seed, run, wd)
    prefix = prop + ":"
    classes = {}
    for c in cases:
        run.evaluations += 1
        j = c["judge"]
        if c["rec"] is None:
            # neither Ok nor TableConflict on a well-formed grammar: generate failed to decide
            if prop == "C04":
                run.violation(replay_case(c, "C04: generate neither emitted a parser nor reported a table conflict on a well-formed grammar: %s" % json.dumps(c["other"])[:300], "no-verdict"))
            continue
        run.traces += 1
        if not j["ok"] and j["why"].startswith(prefix):
            run.violation(replay_case(c, j["why"], "judge"))
        if prop == "C11" and c["rec"]["verdict"] == "conflict" and c.get("attached_file_mismatch"):
            run.violation(replay_case(c, "C11: attached grammar is not the validated input grammar: " + c["attached_file_mismatch"], "attached-file"))
        # non-triviality bookkeeping
        if prop == "C04":
            for k in (j["classes"] or ["none"]):
                classes[k] = classes.get(k, 0) + 1
            run.nontrivial.add(json.dumps(c["rec"]["g"], sort_keys=True))
        elif prop == "C17":
            if j["cf"] and j["nlalr"] < j["ncanon"]:
                run.nontrivial.add(json.dumps(c["rec"]["g"], sort_keys=True))
        elif prop == "C11":
            if not j["cf"]:
                for k in j["classes"]:
                    run.nontrivial.add(k + "/" + json.dumps(c["rec"]["g"], sort_keys=True))
    if prop == "C04":
        run.rule = ("every grammar of the TLA+ universes (Universe.tla) and Classics.tla plus seeded random larger grammars, rendered to "
                    "Kiki text with a seeded presentation; distinct = distinct grammars (as rule sequences) judged; per conflict class counts in by_class")
        run.notes["by_class"] = classes
        if tier == "quick":
            for k in ("shift-reduce", "reduce-reduce", "accept-reduce", "none"):
                if not classes.get(k):
                    raise ToolError("conflict class %s never exercised" % k)
    elif prop == "C17":
        run.rule = "same cases as C04; distinct = distinct conflict-free grammars whose LALR(1) automaton has fewer states than the canonical LR(1) collection (a core really was merged)"
    else:
        run.rule = "same cases as C04; distinct = distinct (conflict class, grammar) pairs among the conflicting grammars"
    for c in cases[:3] + cases[-2:]:
        run.sample({"src": c["src"], "verdict": (c["rec"] or {}).get("verdict"), "judge": c["judge"]})
    run.exhaustive = True
    run.assumptions = ["TLC 1.8.0 and the CommunityModules Json/IOUtils overrides are correct",
                       "the rendering grammar -> Kiki text is faithful (cross-checked: the grammar kiki extracts must equal the rendered one)",
                       "universes are bounded (Universe.tla); beyond them only seeded random grammars up to 6 nonterminals / 14 rules"]
    design_level(prop, tier, run)
    return run.finish()


def design_level(prop, tier, run):
    """The operational specifications, model-checked: merge-on-the-fly == LR(1) merged by core under every
    schedule; ordered scan + unordered fill is deterministic and agrees with ConflictFree/TablesMatch."""
    import os
    if os.path.exists(os.path.join(common.SPEC, "MC_Builder.tla")):
        u = "U1" if tier == "quick" else "U2"
        r = common.tlc_ok("MC_Builder", env={"UNIVERSE": u}, workers=6, timeout=3000, coverage=True)
        run.add_tlc(r)
        run.notes["MC_Builder"] = {"universe": u, "distinct": r.distinct, "generated": r.generated, "depth": r.depth}
    if os.path.exists(os.path.join(common.SPEC, "MC_TableFill.tla")):
        u = "U1" if tier == "quick" else "U2"
        r = common.tlc_ok("MC_TableFill", env={"UNIVERSE": u}, workers=6, timeout=3000, coverage=True)
        run.add_tlc(r)
        run.notes["MC_TableFill"] = {"universe": u, "distinct": r.distinct, "generated": r.generated, "depth": r.depth}
