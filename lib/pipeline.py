"""Engine `pipeline`: C04 (LALR(1) verdict), C17 (canonical tables), C11 (conflict witness).

Design level: MC_Builder (worklist construction == LR(1)-merged-by-core under every schedule),
MC_TableFill (ordered conflict scan, hash-order-independent fill).
Conformance: every grammar of the universe goes through the real generate; verdict, tables read back
from the emitted text and from the Table value, automaton and conflict payload are judged by TLC
(PipelineJudge) against LR1.tla; builder and table-fill event traces are validated against the
operational specs (PipelineTrace).
"""
import json, os, random, re, concurrent.futures as cf
import common, grammar
from common import ToolError, log


def dump_universe(name, wd):
    out = os.path.join(wd, name + ".ndjson")
    r = common.tlc_ok("MC_Universe", env={"UNIVERSE": name, "OUT": out}, workers=1, timeout=600)
    gs = [json.loads(l) for l in open(out) if l.strip()]
    return gs, r


def random_grammar(rng, max_nts=6, max_ts=5, max_rules=14, max_rhs=4):
    nn = rng.randint(1, max_nts)
    nt = rng.randint(0, max_ts)
    nts = ["N%d" % i for i in range(nn)]
    ts = ["$T%d" % i for i in range(nt)]
    rules = []
    budget = rng.randint(1, max_rules)
    for A in nts:
        k = rng.choice([0, 1, 1, 2, 2, 3]) if budget > 0 else 0
        k = min(k, budget)
        budget -= k
        seen = set()
        for _ in range(k):
            n = rng.choice([0, 1, 1, 2, 2, 3, max_rhs])
            pool = nts + ts + ts
            rhs = tuple(rng.choice(pool) for _ in range(n)) if pool else ()
            if rhs in seen:
                continue
            seen.add(rhs)
            rules.append({"lhs": A, "rhs": list(rhs)})
    return {"nts": nts, "ts": ts, "start": nts[0], "rules": rules}


def bracket_grammar(rng):
    """Seeded grammar from the family where merge-on-the-fly is delicate: a self-recursive nonterminal P (bracket, left or
    right recursion, optional epsilon) under an optional wrapper S that supplies outside lookaheads; 3-4 terminals whose NAME
    ORDER (which decides item and symbol order inside the implementation) is drawn at random."""
    ts = ["$" + n for n in rng.sample(["A", "B", "L", "M", "R", "X", "Y", "Z"], rng.choice([2, 3, 3, 4]))]
    t = lambda: rng.choice(ts)
    p_templates = [[], [t()], [t(), "P", t()], [t(), "P"], ["P", t()], [t(), t()], [t(), "P", t(), t()], [t(), "P", "P"], ["Q"], [t(), "Q", t()]]
    prules = []
    for rhs in rng.sample(p_templates, rng.choice([2, 2, 3, 3, 4])):
        if rhs not in prules:
            prules.append(rhs)
    rules = []
    nts = ["P"]
    wrap = rng.random() < 0.7
    if wrap:
        nts = ["S", "P"]
        srules = [rng.choice([["P", t()], [t(), "P", t()], ["P"], ["P", t(), "P"], [t(), "P"]])]
        if rng.random() < 0.3:
            srules.append([t(), "P", t(), t()])
        rules += [{"lhs": "S", "rhs": r} for r in srules]
    rules += [{"lhs": "P", "rhs": r} for r in prules]
    if any("Q" in r["rhs"] for r in rules):
        nts.append("Q")
        rules += [{"lhs": "Q", "rhs": r} for r in rng.sample([[], [t()], [t(), "Q"], ["P"]], rng.choice([1, 2]))]
    if rng.random() < 0.5:       # declaration order of the nonterminals (rule numbering) matters too
        order = nts[:]
        rng.shuffle(order)
        rules = [r for n in order for r in rules if r["lhs"] == n]
    # drop duplicate right-hand sides of one nonterminal (kiki rejects them as a symbol-sequence clash)
    seen, uniq = set(), []
    for r in rules:
        k = (r["lhs"], tuple(r["rhs"]))
        if k not in seen:
            seen.add(k)
            uniq.append(r)
    return {"nts": nts, "ts": sorted(ts), "start": nts[0] if not wrap else "S", "rules": uniq}


def run_real(cases, want=("grammar", "table", "machine", "rust"), batch=1500):
    """cases: list of dicts with 'src'. Adds 'resp' to each."""
    for lo in range(0, len(cases), batch):
        chunk = cases[lo:lo + batch]
        reqs = [{"id": lo + k, "src": c["src"], "want": list(want)} for k, c in enumerate(chunk)]
        resps = common.kv("gen", reqs, timeout=1200)
        for c, r in zip(chunk, resps):
            c["resp"] = r
    return cases


def obs_record(idx, case):
    """Builds the PipelineJudge record for one executed case; returns (record or None, note)."""
    G, pres, r = case["G"], case["pres"], case["resp"]
    res = r["res"]
    rec = {"id": idx, "g": grammar.tla_grammar(dict(G, nts=pres["nts"], ts=pres["ts"])),
           "tables": [], "machines": [], "conflict": []}
    # the code orders terminals by name (String Ord = byte order); TLC cannot order strings, so the rank is handed over
    rec["g"]["tsorted"] = sorted(pres["ts"], key=lambda s: s.encode())
    if res["t"] == "ok":
        rec["verdict"] = "ok"
        # the grammar kiki extracted from the text (hook view of the validated file) against the declared one: a difference
        # is reported as drift only - everything below is judged against the DECLARED grammar, which is what the
        # properties speak about, so a front end that mangles the declarations shows up as wrong tables / verdicts
        why = grammar.same_grammar(G, pres, r["grammar"]) if "grammar" in r else None
        if why:
            case["grammar_drift"] = why
        try:
            rec["tables"].append(grammar.extract_tables(res["rust"], pres["ts"], pres["nts"]))
        except grammar.MalformedTables as e:
            case["malformed_tables"] = str(e)
        rec["tables"].append(grammar.hook_table(r["table"]))
        rec["machines"].append(r["machine"])
        return rec, None
    if res["t"] == "err" and res["err"]["v"] == "TableConflict":
        e = res["err"]
        rec["verdict"] = "conflict"
        rec["machines"].append(e["machine"])
        rec["conflict"].append({"state": e["state"], "items": e["items"]})
        why = grammar.same_grammar(G, pres, e["file"])
        case["attached_file_mismatch"] = why
        return rec, None
    return None, res


def judge(records, wd, shards=6):
    """Runs PipelineJudge over the records (sharded over several TLC processes). Returns ({id: verdict}, [TlcResult])."""
    shards = max(1, min(shards, len(records) // 50 + 1))
    files = []
    for s in range(shards):
        p = os.path.join(wd, "obs_%d.ndjson" % s)
        with open(p, "w") as f:
            for rec in records[s::shards]:
                f.write(json.dumps(rec) + "\n")
        files.append(p)

    def one(p):
        return common.tlc("PipelineJudge", env={"OBS": p}, workers=1, timeout=3000, xmx="3g")
    with cf.ThreadPoolExecutor(max_workers=shards) as ex:
        results = list(ex.map(one, files))
    verdicts = {}
    for r in results:
        if r.error:
            raise ToolError("PipelineJudge failed:\n" + r.error)
        for j in r.tagged("JUDGE"):
            verdicts[j["id"]] = j
    if len(verdicts) != len(records):
        raise ToolError("PipelineJudge judged %d of %d records" % (len(verdicts), len(records)))
    return verdicts, results


def build_cases(tier, seed, wd, run, wide=False):
    rng = random.Random(seed)
    cases = []
    tlc_results = []
    universes = ["classics", "U2", "U3a", "U3b"]
    for u in universes:
        gs, r = dump_universe(u, wd)
        tlc_results.append(r)
        if tier == "quick" and u == "U3a":
            # the quick tier takes a seeded sample of the largest universe (three-symbol right-hand sides; 14 535 grammars),
            # the thorough tier all of it; U3b (a third nonterminal; 4 371 grammars) is run completely in both
            gs = rng.sample(gs, 4000)
        for G in gs:
            pres = grammar.present(G, rng)
            # vary declaration order of nonterminals (start need not come first) and terminals
            if rng.random() < 0.3:
                rng.shuffle(pres["nts"])
                G = reorder_rules(G, pres["nts"])
                pres = grammar.present(G, rng)
            if rng.random() < 0.3:
                rng.shuffle(pres["ts"])
            cases.append({"G": G, "pres": pres, "src": grammar.render(G, pres), "origin": u})
    cases += repo_cases()
    nrand = 400 if tier == "quick" else 2500
    for _ in range(nrand):
        G = random_grammar(rng)
        pres = grammar.present(G, rng, payload=None)
        cases.append({"G": G, "pres": pres, "src": grammar.render(G, pres), "origin": "random"})
    # one-dimension scale: ONE rule with more than 256 fields (dot positions beyond a byte), between short rules
    # (TLC needs about two minutes to judge one of them, so the quick tier has a single one and only in the C17 check;
    # the thorough tier of C04, C11 and C17 has three - with six, one of them 512 fields wide, the judge ran for more than 40 minutes)
    for k in range(0 if not wide else 1 if tier == "quick" else 3):
        n = [257, 258, 300][k]
        a = "$Ta" if k % 2 == 0 else "A"        # the repeated symbol: a terminal, or a nonterminal with one production
        G = {"nts": ["S", "B", "C"] + (["A"] if a == "A" else []), "ts": ["$Ta", "$Tb", "$Tc"], "start": "S",
             "rules": [{"lhs": "S", "rhs": ["B"]}, {"lhs": "S", "rhs": [a] * n + ["B"]}, {"lhs": "S", "rhs": ["C", a]},
                       {"lhs": "B", "rhs": ["$Tb"]}, {"lhs": "C", "rhs": ["$Tc"]}] + ([{"lhs": "A", "rhs": ["$Ta"]}] if a == "A" else [])}
        pres = grammar.present(G, rng)
        pres["nts"] = list(G["nts"])
        cases.append({"G": G, "pres": pres, "src": grammar.render(G, pres), "origin": "wide-rule"})
    for _ in range(150 if tier == "quick" else 3000):
        G = chain_grammar(rng)
        pres = grammar.present(G, rng)
        pres["nts"] = list(G["nts"])
        cases.append({"G": G, "pres": pres, "src": grammar.render(G, pres), "origin": "chain"})
    seen = set()
    for _ in range(2500 if tier == "quick" else 40000):
        G = bracket_grammar(rng)
        key = json.dumps(G, sort_keys=True)
        if key in seen:
            continue
        seen.add(key)
        pres = grammar.present(G, rng)
        pres["ts"] = list(G["ts"])
        cases.append({"G": G, "pres": pres, "src": grammar.render(G, pres), "origin": "bracket"})
    return cases, tlc_results


def chain_grammar(rng):
    """A chain A1 -> A2 -> ... -> An of 4-10 nonterminals declared top-down (each before the one it refers to), nullable
    through its last member, optionally left-recursive through it (An -> A1 t), with FIRST(A1) feeding a lookahead:
    nullability needs n passes to climb, the terminals another n - the regime where an iteration that gives up early, or a
    wrong 'changed' test, shows."""
    n = rng.randint(4, 10)
    A = ["A%d" % i for i in range(1, n + 1)]
    ts = ["$Tb", "$Tt", "$Tu"]
    if rng.random() < 0.3:
        # a reduce/reduce conflict that exists only because a terminal climbs the whole chain into FIRST(A1)
        rules = [{"lhs": "S", "rhs": ["B", "A1"]}, {"lhs": "S", "rhs": ["Q", "$Tt"]}, {"lhs": "B", "rhs": ["$Tb"]}, {"lhs": "Q", "rhs": ["$Tb"]}]
    else:
        rules = [{"lhs": "S", "rhs": rng.choice([["B", "A1"], ["B", "A1", "$Tu"], ["A1", "B"], ["B", "A1", "B"]])}, {"lhs": "B", "rhs": ["$Tb"]}]
    pure = len(rules) == 4 or rng.random() < 0.6      # the conflict variant is always a pure chain: its ONLY conflict is the late one
    for i in range(n - 1):
        rules.append({"lhs": A[i], "rhs": [A[i + 1]] if pure or rng.random() < 0.93 else [A[i + 1], A[min(n - 1, i + 2)]]})
        if not pure and rng.random() < 0.1:
            rules.append({"lhs": A[i], "rhs": [ts[2]]})
    last = [{"lhs": A[-1], "rhs": []}]
    r = rng.random()
    if len(rules) - (n - 1) == 4 or r < 0.6:
        last.append({"lhs": A[-1], "rhs": ["A1", "$Tt"]})
    elif r < 0.8:
        last.append({"lhs": A[-1], "rhs": ["$Tt", "A1"]})
    elif r < 0.9:
        last.append({"lhs": A[-1], "rhs": ["$Tt"]})
    rules += last
    head = ["S", "B"] + (["Q"] if any(r["lhs"] == "Q" for r in rules) else [])
    nts = head + A
    if rng.random() < 0.25:      # sometimes bottom-up or shuffled: the control group
        order = A[::-1] if rng.random() < 0.5 else rng.sample(A, len(A))
        nts = head + order
    G = {"nts": nts, "ts": ts, "start": "S", "rules": rules}
    return reorder_rules(G, nts)


def repo_grammar_files():
    out = []
    for root in ("/repo/kiki/src", "/repo/kiki_e2e_test/src"):
        for d, _, fs in os.walk(root):
            if "should_fail" in d:
                continue
            for f in sorted(fs):
                if f.endswith(".kiki"):
                    out.append(os.path.join(d, f))
    return sorted(out)


def repo_cases():
    """The repository's own grammars. Their abstract grammar is the one kiki itself extracts (kv `grammar`)."""
    files = repo_grammar_files()
    srcs = [open(f).read() for f in files]
    resps = common.kv("gen", [{"id": k, "src": s, "want": ["grammar"]} for k, s in enumerate(srcs)])
    cases = []
    for f, s, r in zip(files, srcs, resps):
        if "grammar" not in r:
            continue
        kg = r["grammar"]
        G = {"nts": kg["nts"], "ts": kg["ts"], "start": kg["start"],
             "rules": [{"lhs": x["lhs"], "rhs": x["rhs"]} for x in kg["rules"]]}
        pres = {"nts": kg["nts"], "ts": kg["ts"], "ttypes": dict(zip(kg["ts"], kg["ttypes"])),
                "rules": {i: dict(struct=x["ctor"] == "struct", vname=x["vname"], style=x["style"], mask=x["mask"],
                                  fnames=x["fnames"]) for i, x in enumerate(kg["rules"])}}
        cases.append({"G": G, "pres": pres, "src": s, "origin": "repo:" + os.path.relpath(f, "/repo")})
    return cases


def reorder_rules(G, order):
    rules = []
    for A in order:
        rules += [r for r in G["rules"] if r["lhs"] == A]
    return dict(G, rules=rules)


def execute(tier, seed, run, wd, wide=False):
    """Shared by C04, C11, C17: returns (cases, verdicts)."""
    common.build_harness()
    cases, tlcs = build_cases(tier, seed, wd, run, wide)
    for r in tlcs:
        run.add_tlc(r)
    t0 = __import__("time").time()
    log("  [%.0fs] universes dumped" % 0)
    run_real(cases)
    log("  [+%.0fs] kv gen" % (__import__("time").time() - t0))
    records = []
    for idx, c in enumerate(cases):
        rec, other = obs_record(idx, c)
        c["rec"] = rec
        c["other"] = other
        if rec is not None:
            records.append(rec)
    log("  [+%.0fs] observations built" % (__import__("time").time() - t0))
    verdicts, results = judge(records, wd, shards=14)
    log("  [+%.0fs] judged" % (__import__("time").time() - t0))
    for r in results:
        run.add_tlc(r)
    for idx, c in enumerate(cases):
        c["judge"] = verdicts.get(idx)
    return cases


def trace_lines(case_id, c, r):
    """ND-JSON lines of one grammar's builder + table-fill execution, in PipelineTrace.tla's vocabulary."""
    G, pres = c["G"], c["pres"]
    lines = [{"ev": "grammar", "id": case_id, "g": grammar.tla_grammar(dict(G, nts=pres["nts"], ts=pres["ts"]))}]
    res = r["res"]
    evs = r.get("events", [])
    lines += [e for e in evs if e["ev"] in ("first_pass", "first", "pop", "target")]
    if res["t"] == "ok":
        m = r["machine"]
    elif res["t"] == "err" and res["err"]["v"] == "TableConflict":
        m = res["err"]["machine"]
    else:
        return None
    lines.append({"ev": "machine", "m": m})
    for e in evs:
        if e["ev"] in ("scan", "set_action"):
            lines.append(e)
        elif e["ev"] == "fill_order":
            lines += [{"ev": "fill", "state": s, "qt": q} for s, q in e["cells"]]
        elif e["ev"] == "goto_fill_order":
            lines += [{"ev": "gfill", "state": s, "nt": n} for s, n in e["cells"]]
    if res["t"] == "ok":
        lines.append({"ev": "table", "t": grammar.hook_table(r["table"])})
    else:
        lines.append({"ev": "conflict", "state": res["err"]["state"], "items": res["err"]["items"]})
    return lines


def closure_lines(case_id, c, r):
    """ND-JSON lines of every get_closure call of one grammar, in ClosureTrace.tla's vocabulary."""
    evs = [e for e in r.get("events", []) if e["ev"] in ("cstart", "cskip", "cexpand", "cend")]
    if not evs:
        return None
    G, pres = c["G"], c["pres"]
    return [{"ev": "grammar", "id": case_id, "g": grammar.tla_grammar(dict(G, nts=pres["nts"], ts=pres["ts"]))}] + evs


def _validate(module, per_case, wd, run, shards, tag):
    """TLC validates the concatenated traces against `module`; returns [(case, rejected event, tlc error)]."""
    out = {"rejected": [], "tlc": [], "traces": 0, "events": 0}
    if not per_case:
        return out
    shards = max(1, min(shards, len(per_case)))
    rejected = out["rejected"]
    todo = [per_case[s::shards] for s in range(shards)]

    def one(args):
        s, part = args
        path = os.path.join(wd, "%s_%d.ndjson" % (tag, s))
        with open(path, "w") as f:
            for _, ls in part:
                for ln in ls:
                    f.write(json.dumps(ln) + "\n")
        return common.tlc(module, env={"TRACE": path}, workers=1, timeout=3000, deque=True, xmx="3g")
    with cf.ThreadPoolExecutor(max_workers=shards) as ex:
        results = list(ex.map(one, list(enumerate(todo))))
    for part, r in zip(todo, results):
        out["tlc"].append(r)
        acc = r.tagged_raw("TRACE-ACCEPTED")
        rej = r.tagged_raw("TRACE-REJECTED")
        out["events"] += sum(len(ls) for _, ls in part)
        if acc:
            out["traces"] += len(part)
            continue
        if not rej:
            raise ToolError("%s neither accepted nor rejected:\n" % module + (r.error or r.out[-2000:]))
        # find the case containing the rejected line
        m = re.match(r'^<<"TRACE-REJECTED", (\d+), "(.*)">>$', rej[0])
        lineno = int(m.group(1))
        acc_lines = 0
        for c, ls in part:
            if lineno <= acc_lines + len(ls):
                rejected.append((c, ls[lineno - acc_lines - 1], r.error))
                break
            acc_lines += len(ls)
            out["traces"] += 1
    return out


def validate_traces(cases, wd, run, shards=6, tag="trace", closure=False):
    """Records builder/table-fill events of the given cases from the real code and has TLC validate them against
    Builder.tla / TableFill.tla / FirstSets.tla (PipelineTrace) and, with closure=True, every iteration of every
    get_closure call against Closure.tla (ClosureTrace). Returns a list of (case, rejected event, error)."""
    want = ["buildev", "fillev", "machine", "table"] + (["closev"] if closure else [])
    reqs = [{"id": k, "src": c["src"], "want": want} for k, c in enumerate(cases)]
    resps = common.kv("gen", reqs, timeout=1200)
    per_case, per_case_cl = [], []
    for k, (c, r) in enumerate(zip(cases, resps)):
        ls = trace_lines(k, c, r)
        if ls is not None:
            per_case.append((c, ls))
        if closure:
            cl = closure_lines(k, c, r)
            if cl is not None:
                per_case_cl.append((c, cl))
    with cf.ThreadPoolExecutor(max_workers=2) as ex:
        a = ex.submit(_validate, "PipelineTrace", per_case, wd, run, shards, tag)
        b = ex.submit(_validate, "ClosureTrace", per_case_cl, wd, run, max(1, shards // 2), tag + "_closure")
        rejected = []
        for key, res in (("trace_events_validated", a.result()), ("closure_events_validated", b.result())):
            for r in res["tlc"]:
                run.add_tlc(r)
            run.traces += res["traces"]
            if res["events"]:
                run.notes[key] = run.notes.get(key, 0) + res["events"]
            rejected += res["rejected"]
        return rejected


def replay_case(c, why, kind):
    return {"kind": kind, "why": why, "src": c["src"], "grammar": c["G"], "pres": c["pres"], "origin": c["origin"],
            "observed": summarize(c["resp"]["res"]), "judged_by": "spec/PipelineJudge.tla over spec/LR1.tla"}


def summarize(res):
    if res["t"] == "ok":
        return {"t": "ok"}
    if res["t"] == "err" and res["err"]["v"] == "TableConflict":
        e = res["err"]
        return {"t": "conflict", "state": e["state"], "items": e["items"]}
    return res


def check(prop, tier, seed):
    run = common.Run(prop, tier, seed)
    wd = common.workdir("pipeline_%s_%s" % (prop, tier))
    # the design-level models do not depend on the code: they run in the background while the real code is exercised
    bg = cf.ThreadPoolExecutor(max_workers=1)
    design = bg.submit(design_level, prop, tier, run)
    t0 = __import__("time").time()
    cases = execute(tier, seed, run, wd, wide=(prop == "C17" or tier == "thorough"))
    log("  [%.0fs] real code executed and judged (%d cases)" % (__import__("time").time() - t0, len(cases)))
    prefix = prop + ":"
    classes = {}
    for c in cases:
        run.evaluations += 1
        j = c["judge"]
        if c["rec"] is None:
            # neither Ok nor TableConflict on a well-formed grammar: generate failed to decide
            if prop == "C04":
                run.violation(replay_case(c, "C04: generate neither emitted a parser nor reported a table conflict on a well-formed grammar: %s" % json.dumps(c["other"])[:300], "no-verdict"))
            continue
        run.traces += 1
        mine = [w for w in j.get("whys", []) if w.startswith(prefix)]
        if mine:
            run.violation(replay_case(c, mine[0], "judge"))
        if prop == "C11" and c["rec"]["verdict"] == "conflict" and c.get("attached_file_mismatch"):
            run.violation(replay_case(c, "C11: attached grammar is not the validated input grammar: " + c["attached_file_mismatch"], "attached-file"))
        if prop == "C17" and c.get("malformed_tables"):
            run.violation(replay_case(c, "C17: the emitted tables are inconsistent with their own declaration: " + c["malformed_tables"], "malformed-tables"))
        # non-triviality bookkeeping
        if prop == "C04":
            for k in (j["classes"] or ["none"]):
                classes[k] = classes.get(k, 0) + 1
            run.nontrivial.add(json.dumps(c["rec"]["g"], sort_keys=True))
        elif prop == "C17":
            if j["cf"] and j["nlalr"] < j["ncanon"]:
                run.nontrivial.add(json.dumps(c["rec"]["g"], sort_keys=True))
        elif prop == "C11":
            if not j["cf"]:
                for k in j["classes"]:
                    run.nontrivial.add(k + "/" + json.dumps(c["rec"]["g"], sort_keys=True))
    if prop == "C04":
        run.rule = ("every grammar of the TLA+ universes (Universe.tla) and Classics.tla plus seeded random larger grammars, rendered to "
                    "Kiki text with a seeded presentation; distinct = distinct grammars (as rule sequences) judged; per conflict class counts in by_class")
        run.notes["by_class"] = classes
        if tier == "quick":
            for k in ("shift-reduce", "reduce-reduce", "accept-reduce", "none"):
                if not classes.get(k):
                    raise ToolError("conflict class %s never exercised" % k)
    elif prop == "C17":
        run.rule = "same cases as C04; distinct = distinct conflict-free grammars whose LALR(1) automaton has fewer states than the canonical LR(1) collection (a core really was merged)"
    else:
        run.rule = "same cases as C04; distinct = distinct (conflict class, grammar) pairs among the conflicting grammars"
    for c in cases[:3] + cases[-2:]:
        run.sample({"src": c["src"], "verdict": (c["rec"] or {}).get("verdict"), "judge": c["judge"]})
    run.exhaustive = True
    run.assumptions = ["TLC 1.8.0 and the CommunityModules Json/IOUtils overrides are correct",
                       "the rendering grammar -> Kiki text is faithful (cross-checked: the grammar kiki extracts must equal the rendered one)",
                       "universes are bounded (Universe.tla); beyond them only seeded random grammars up to 6 nonterminals / 14 rules"]
    # scale regime: tagged unions of the judged small grammars (hundreds of states); Union.tla lifts verdict and tables
    if prop in ("C04", "C17"):
        import scale
        scale.tables(prop, tier, seed, cases, run, wd)
        log("  [%.0fs] scale regime done" % (__import__("time").time() - t0))
    # (B) step-level conformance: recorded builder / table-fill events against Builder.tla / TableFill.tla
    rng = random.Random(seed + 17)
    pool = [c for c in cases if c["rec"] is not None]
    fixed = [c for c in pool if c["origin"] == "classics" or c["origin"].startswith("repo:")]
    rest = [c for c in pool if c not in fixed]
    sample = fixed + rng.sample(rest, min(len(rest), 400 if tier == "quick" else 4000))
    rejected = validate_traces(sample, wd, run, shards=12, closure=(prop == "C17"))
    for c, ev, err in rejected:
        # diagnostic only (DESIGN.md section 7): the end states above decide the property
        print("CONFORMANCE-DRIFT property=%s the real FIRST iteration / closure loop / builder / table filler took a step the specifications do not allow: %s"
              % (prop, json.dumps(ev)[:300]))
    run.notes["trace_drift"] = len(rejected)
    drift = [c for c in cases if c.get("grammar_drift")]
    for c in drift[:3]:
        print("CONFORMANCE-DRIFT property=%s the grammar kiki extracted differs from the declared one (%s): %s" % (prop, c["grammar_drift"], json.dumps(c["src"])[:300]))
    run.notes["grammar_drift"] = len(drift)
    # Numbering.tla: the observed automaton is exactly the normal form (states in content order), not only isomorphic to it
    renum = [c for c in cases if c["rec"] is not None and c["judge"].get("canon") is False]
    for c in renum[:3]:
        print("CONFORMANCE-DRIFT property=%s the automaton is the LALR(1) automaton but its states are not numbered in content order (Numbering.tla): %s" % (prop, json.dumps(c["src"])[:300]))
    run.notes["numbering_drift"] = len(renum)
    run.notes["numbering_exact"] = sum(1 for c in cases if c["rec"] is not None and c["judge"].get("canon") is True)
    log("  [%.0fs] traces validated" % (__import__("time").time() - t0))
    design.result()
    log("  [%.0fs] design-level models done" % (__import__("time").time() - t0))        # re-raises a ToolError of the background models
    return run.finish()


def design_level(prop, tier, run):
    """The operational specifications, model-checked: merge-on-the-fly == LR(1) merged by core under every
    schedule (C17); ordered scan + unordered fill ends in a conflict iff not LALR(1), with a genuine witness, and in
    the LALR(1) table whatever the fill order (C04, C11)."""
    if os.environ.get("VERIF_SKIP_MC"):   # developer switch for mutation experiments; never set by registered commands
        return
    u = "U1" if tier == "quick" else "U2"
    if prop == "C11":
        u = "U1"      # C04 and C11 share MC_TableFill; its U2 exploration (> 10^8 states) is run once, by C04's thorough tier
    if prop == "C17":
        # the closure models stay on U1 in both tiers: their initial states (grammar x kernel x queue order, each needing the
        # canonical collection) are generated on one thread - over U2 that alone runs for more than 25 minutes
        models = [("MC_FirstSets", "MC_FirstSets", u), ("MC_Closure", "MC_Closure", "U1"), ("MC_Closure", "MC_ClosureFifo", "U1"),
                  ("MC_Builder", "MC_Builder", u), ("MC_Builder", "MC_BuilderFifo", u),
                  # normalize_machine: the content-sorted normal form is schedule-independent and equals the declarative one
                  ("MC_Builder", "MC_BuilderNumbering", "U1"), ("MC_Builder", "MC_BuilderFifoNumbering", "none")]
    else:
        # every item order x every fill order: U2 itself is out of reach (> 1.3 * 10^8 states, unfinished after 70 min);
        # the thorough tier of C04 takes the slice MC_TableFill calls U2light (7.5 * 10^6 states)
        models = [("MC_TableFill", "MC_TableFill", "U2light" if u == "U2" else u)]
    for module, cfg, univ in models:
        heavy = univ in ("U2", "U2light") and cfg in ("MC_TableFill", "MC_Builder")
        r = common.tlc_ok(module, cfg=cfg, env={"UNIVERSE": univ}, workers=12 if heavy else 6, timeout=14000 if heavy else 6000,
                          coverage=not heavy, xmx="24g" if heavy else "6g")
        run.add_tlc(r)
        cov = r.coverage()
        never = [a for a, (d, t) in cov.items() if t == 0 and a not in ("Init", "FifoInit")]
        run.notes[cfg] = {"universe": univ, "distinct": r.distinct, "generated": r.generated, "depth": r.depth,
                          "actions_never_taken": never}
        if never:
            raise ToolError("%s: action(s) never taken in the bounded model: %s" % (cfg, never))


def replay(prop, path):
    """Re-runs the single case of a replay file against the current /repo and has TLC judge it again."""
    case = json.load(open(path))
    if case.get("kind") == "pipeline-scale":
        # a large tagged union (lib/scale.py): the verdict can be replayed from the label; the table findings need the whole
        # composition again, which `./check <ID> quick` rebuilds with the same seed
        common.build_harness()
        o = common.kv("gen", [{"id": 0, "src": case["src"], "want": []}])[0]["res"]
        if prop == "C04":
            want_ok = case.get("label") == "all LALR(1)"
            is_ok = o["t"] == "ok"
            is_conflict = o["t"] == "err" and o["err"]["v"] == "TableConflict"
            log("label: %s; generate: %s" % (case.get("label"), o["t"] if o["t"] != "err" else o["err"]["v"]))
            if (want_ok and not is_ok) or (not want_ok and not is_conflict):
                print("VIOLATION property=%s replay=%s" % (prop, path))
                return 1
            return 0
        log("table-level finding on a large union: re-run ./check %s quick" % prop)
        return 0
    pres = case["pres"]
    pres["rules"] = {int(k): v for k, v in pres["rules"].items()}
    c = {"G": case["grammar"], "pres": pres, "src": case["src"], "origin": case.get("origin", "replay")}
    run = common.Run(prop, "quick", case.get("seed", 1))
    wd = common.workdir("pipeline_replay_%s" % prop)
    run_real([c])
    rec, other = obs_record(0, c)
    c["rec"], c["other"] = rec, other
    run.evaluations = 1
    if rec is None:
        if prop == "C04":
            run.violation(replay_case(c, "C04: generate neither emitted a parser nor reported a table conflict: %s" % json.dumps(other)[:300], "no-verdict"))
    else:
        verdicts, results = judge([rec], wd, shards=1)
        for r in results:
            run.add_tlc(r)
        j = verdicts[0]
        run.traces = 1
        log("judge: %s" % json.dumps(j))
        mine = [w for w in j.get("whys", []) if w.startswith(prop + ":")]
        if mine:
            run.violation(replay_case(c, mine[0], "judge"))
        if prop == "C11" and rec["verdict"] == "conflict" and c.get("attached_file_mismatch"):
            run.violation(replay_case(c, "C11: attached grammar is not the validated input grammar", "attached-file"))
    run.sample({"src": c["src"]})
    run.nontrivial.update(["replay", "case"])
    run.rule = "single replayed case"
    # a replay does not overwrite the evidence of the real run
    return 1 if run.violations and not print("VIOLATION property=%s replay=%s" % (prop, path)) else 0
