"""Engine `layout`: C16 (whitespace, line endings and comments never influence the result).

Design level: MC_Layout - for every alternation of pool tokens and layout atoms (empty separator only where NeedsSep
allows) the declarative lexical rules read back exactly the intended tokens with starts equal to the accumulated byte
lengths; so any two admissible layouts of one token sequence differ only by shifted starts.
Conformance (A): whole files - repository grammars, valid and invalid files (every validation error class), conflicting
grammars, files with a syntax error, files with a lexical fault - are tokenised by the real tokenizer, re-rendered under
two seeded layouts (required separators kept by the same NeedsSep rule; Unicode spaces, CR LF, comments with arbitrary
content, comment at end of file without newline, everything on one line where attributes allow), and run through the real
generate: Ok texts must be identical after deleting the `// @sha256` line; errors must be the same error with every byte
position mapped through the token-start map.
"""
import json, os, random, re
import common, grammar, pipeline, validate
from common import ToolError, log

SEPS = [" ", "\t", "\n", "\r\n", " ", "　", " ", "  \n\t", " // x\n", "//é€😀 ~!@#$%^&*() start struct $x #[\r\n", "// terminal enum {\n", "/////\n", "// cr inside\r a comment $ #[ {\n", "//\r\r\n"]
FINAL = SEPS + ["", "// no newline at the end", "//", " //é"]


def needs_sep(a, b):
    """Same rule as MC_Layout!NeedsSep, on lexeme texts."""
    wordy = lambda c: c.isascii() and (c.isalnum() or c == "_")
    if wordy(a[-1]) and wordy(b[0]):
        return True
    if a == ":" and b in (":", "::"):
        return True
    return False


def relayout(src, tokens, rng, one_line=False):
    """tokens: [{s, l}] byte spans from the real tokenizer. Returns (new text, {old byte pos: new byte pos} for every byte
    inside a token, plus the end of file)."""
    b = src.encode("utf-8")
    out = b""
    pos = []      # (new start, byte length) per token, in order; last entry: (end of file, 0)
    prev = None
    if rng.random() < 0.5:
        out += rng.choice(SEPS).encode("utf-8")
    for t in tokens:
        lex = b[t["s"]:t["s"] + t["l"]].decode("utf-8")
        if prev is not None:
            seps = [s for s in SEPS if "\n" not in s] if one_line else SEPS
            sep = rng.choice(seps)
            if rng.random() < 0.25 and not needs_sep(prev, lex):
                sep = ""
            if one_line and lex.startswith("#[") and False:
                pass
            out += sep.encode("utf-8")
        pos.append((len(out), t["l"]))
        out += lex.encode("utf-8")
        prev = lex
    fin = rng.choice([s for s in FINAL if "\n" not in s or not one_line]) if tokens else ""
    out += fin.encode("utf-8")
    pos.append((len(out), 0))
    return out.decode("utf-8"), pos


def strip_hash(rust):
    return "\n".join(ln for ln in rust.split("\n") if not ln.startswith("// @sha256 "))


def map_err(e, pos):
    """Maps every byte position of a KikiErr (kv JSON) through pos; returns None if a position is not inside a token."""
    e = json.loads(json.dumps(e))
    try:
        if e["v"] == "Lex":
            e["i"] = pos["in"][e["i"]]
        elif e["v"] == "Parse":
            if e["start"] == e["end"] == pos["eof"][0] and e["text"] == "":
                e["start"] = e["end"] = pos["eof"][1]
            else:
                e["start"], e["end"] = pos["in"][e["start"]], pos["end"][e["end"]]
        elif "pos" in e:
            e["pos"] = [pos["in"][p] for p in e["pos"]]
    except KeyError:
        return None
    if e["v"] == "TableConflict":
        e = {"v": "TableConflict", "state": e["state"], "items": e["items"], "machine": e["machine"], "file": e["file"]}
    return e


def base_texts(rng, tier):
    texts = []
    for root in ("/repo/kiki/src", "/repo/kiki_e2e_test/src"):
        for d, _, fs in os.walk(root):
            for f in sorted(fs):
                if f.endswith(".kiki"):
                    texts.append(("repo:" + f, open(os.path.join(d, f), encoding="utf-8").read()))
    texts.sort()
    # valid and invalid abstract files (every validation error class arises), conflicting grammars
    for _ in range(500 if tier == "quick" else 25000):
        f = validate.random_file(rng)
        texts.append(("validate", validate.render(f, rng)[0]))
    for _ in range(250 if tier == "quick" else 12000):
        G = pipeline.random_grammar(rng, max_nts=4, max_ts=3, max_rules=8, max_rhs=3)
        pres = grammar.present(G, rng, payload=None)
        texts.append(("grammar", grammar.render(G, pres)))
    # syntax errors: drop / duplicate a token later (done on the token level below)
    return texts


FAULTS = ["€", "$ x", "$", "#[(]", "/ x", "#", "$start", "?", "#[a\n]", "​"]


def vcase(why, a, b, ra, rb):
    return {"kind": "layout", "why": "C16: " + why, "src": a, "relayout": b, "result_a": ra, "result_b": rb,
            "judged_by": "spec/MC_Layout.tla (layout irrelevance) + equality of the real results modulo hash line / position map"}


def summarize(res):
    if res["t"] == "ok":
        return {"t": "ok", "len": len(res["rust"])}
    if res["t"] == "err" and res["err"]["v"] == "TableConflict":
        return {"t": "err", "err": {"v": "TableConflict", "state": res["err"]["state"], "items": res["err"]["items"]}}
    return res


def check(prop, tier, seed):
    run = common.Run(prop, tier, seed)
    wd = common.workdir("layout_%s" % tier)
    common.build_harness()
    rng = random.Random(seed * 53 + 7)
    r = common.tlc("MC_Layout", env={"MAXTOK": 2, "POOL": "full"}, workers=8, timeout=6000, xmx="8g")
    if r.error:
        raise ToolError("MC_Layout: layout changes the token sequence in the specification itself:\n" + r.error[:3000])
    run.add_tlc(r)
    if tier == "thorough":
        r3 = common.tlc("MC_Layout", env={"MAXTOK": 3, "POOL": "core"}, workers=12, timeout=20000, xmx="16g")
        if r3.error:
            raise ToolError("MC_Layout (3 tokens):\n" + r3.error[:3000])
        run.add_tlc(r3)
    bases = base_texts(rng, tier)
    toks = common.kv("tokenize", [{"id": i, "src": s, "want": []} for i, (_, s) in enumerate(bases)], timeout=1800)
    pairs = []   # (origin, text A, text B, pos map A->B, kind)
    for (origin, src), t in zip(bases, toks):
        if t["res"]["t"] != "ok":
            continue
        tokens = t["res"]["tokens"]
        variants = [tokens]
        # a syntax-error variant: drop or duplicate one token (spans still refer to src)
        if tokens and rng.random() < 0.5:
            j = rng.randrange(len(tokens))
            variants.append(tokens[:j] + tokens[j + 1:] if rng.random() < 0.5 else tokens[:j + 1] + tokens[j:])
        for toks_v in variants:
            one_line = rng.random() < 0.2 and not any(src.encode("utf-8")[x["s"]:x["s"] + 2] == b"#[" for x in toks_v)
            a, pa = relayout(src, toks_v, rng)
            bb, pb = relayout(src, toks_v, rng, one_line=one_line)
            # map A positions to B positions through the original positions
            # two maps: positions INSIDE a token (its start, the byte after `$`, ...) and positions just past a token
            # (a position can be both "end of token i" and "start of token i+1" in one layout but not in the other)
            inv = {"in": {}, "end": {}}
            for (sa, l), (sb, _) in zip(pa[:-1], pb[:-1]):
                for k in range(l):
                    inv["in"][sa + k] = sb + k
                inv["end"][sa + l] = sb + l
            inv["eof"] = (pa[-1][0], pb[-1][0])
            pairs.append((origin, a, bb, inv, "plain"))
            # lexical fault appended after the (valid) prefix: only the prefix is re-laid
            if rng.random() < 0.3:
                fault = rng.choice(FAULTS)
                a2, b2 = a + "\n" + fault + " tail", bb + "\n" + fault + " tail"
                la, lb = len(a.encode("utf-8")), len(bb.encode("utf-8"))
                inv2 = {"in": dict(inv["in"]), "end": dict(inv["end"]),
                        "eof": (len(a2.encode("utf-8")), len(b2.encode("utf-8")))}
                for k in range(len(("\n" + fault + " tail").encode("utf-8")) + 1):
                    inv2["in"][la + k] = lb + k
                    inv2["end"][la + k] = lb + k
                pairs.append((origin, a2, b2, inv2, "lexfault"))
    ra = common.kv("gen", [{"id": i, "src": p[1], "want": ["rust"]} for i, p in enumerate(pairs)], timeout=3000)
    rb = common.kv("gen", [{"id": i, "src": p[2], "want": ["rust"]} for i, p in enumerate(pairs)], timeout=3000)
    classes = {}
    for (origin, a, b, inv, kind), oa, ob in zip(pairs, ra, rb):
        run.evaluations += 1
        run.traces += 1
        xa, xb = oa["res"], ob["res"]
        cls = xa["t"] if xa["t"] != "err" else xa["err"]["v"]
        classes[cls] = classes.get(cls, 0) + 1
        run.nontrivial.add((origin.split(":")[0], cls, kind, len(a) % 97))
        if xa["t"] in ("panic", "hang") or xb["t"] in ("panic", "hang"):
            run.violation(vcase("generate did not return", a, b, summarize(xa), summarize(xb)))
            continue
        if xa["t"] != xb["t"]:
            run.violation(vcase("one layout is accepted, the other rejected", a, b, summarize(xa), summarize(xb)))
            continue
        if xa["t"] == "ok":
            if strip_hash(xa["rust"]) != strip_hash(xb["rust"]):
                run.violation(vcase("emitted text differs beyond the source hash line", a, b, summarize(xa), summarize(xb)))
            continue
        ea = map_err(xa["err"], inv)
        eb = xb["err"]
        if eb["v"] == "TableConflict":
            eb = {"v": "TableConflict", "state": eb["state"], "items": eb["items"], "machine": eb["machine"], "file": eb["file"]}
        if ea is None:
            run.violation(vcase("an error position of the first layout is not inside any token (cannot be a token position)", a, b, summarize(xa), summarize(xb)))
        elif ea != eb:
            run.violation(vcase("the two layouts give different errors after mapping positions: %s vs %s" % (json.dumps(ea)[:300], json.dumps(summarize(xb))[:300]), a, b, summarize(xa), summarize(xb)))
    need = ["ok", "Parse", "Lex", "TableConflict", "NameClash", "UndefinedNonterminal"]
    missing = [c for c in need if not classes.get(c)]
    if missing:
        # which outcomes the corpus produces depends on the code under test; an absent class narrows the evidence, it is
        # neither a violation of C16 nor a defect of the machinery
        log("  note: the layout corpus never produced outcome classes %s" % missing)
        run.notes["outcome_classes_never_produced"] = missing
    run.notes["outcome_classes"] = classes
    run.sample({"layout_a": pairs[3][1][:400], "layout_b": pairs[3][2][:400]})
    run.rule = "distinct (corpus, outcome class, plain/lexical-fault, size bucket) pairs of layouts compared on the real generate; evaluations = layout pairs"
    run.exhaustive = True
    run.assumptions = ["TLC/CommunityModules", "token spans come from the real tokenizer (C08 checks them)", "layouts are drawn with a seeded python RNG from the atom lists (not from TLC's simulator)"]
    return run.finish()


def replay(prop, path):
    case = json.load(open(path))
    o = common.kv("gen", [{"id": 0, "src": case["src"], "want": ["rust"]}, {"id": 1, "src": case["relayout"], "want": ["rust"]}])
    xa, xb = o[0]["res"], o[1]["res"]
    same = xa["t"] == xb["t"] and (xa["t"] != "ok" or strip_hash(xa["rust"]) == strip_hash(xb["rust"])) and \
        (xa["t"] != "err" or xa["err"]["v"] == xb["err"]["v"])
    log("a: %s\nb: %s" % (json.dumps(summarize(xa))[:300], json.dumps(summarize(xb))[:300]))
    if not same or summarize(xa) != case.get("result_a") or summarize(xb) != case.get("result_b"):
        if not same:
            print("VIOLATION property=%s replay=%s" % (prop, path))
            return 1
    return 0
