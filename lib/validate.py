"""Engine `validate`: C10 (static well-formedness is enforced and reported truthfully).

Design level: MC_Validate - every file within DEPTH edits of the base files; the operational Run(f) (validate_ast's
checks in the implementation's order) is sound w.r.t. the declarative Truthful / HasViolation of Validate.tla.
Conformance (A)+(C): every explored file is rendered to Kiki text (identifier occurrences <-> byte positions), run
through the real generate, the reported positions are mapped back to occurrence sites and the outcome is judged by TLC
(ValidateJudge): Ok / table conflict => no violation present; validation error => truthful (any violation present).
(B) seeded random larger files over bigger name pools are judged the same way.
"""
import json, os, random, concurrent.futures as cf
import common
from common import ToolError, log

UPPER = ["A", "B", "C", "D", "T", "V", "W", "_A", "Foo", "X9", "__Z", "S", "Node", "_1B"]
LOWER = ["a", "b", "_a", "foo", "x9", "__z", "e", "_1b"]
NOLETTER = ["_1", "__", "_42", "___"]      # "_" alone is the reserved word, never an identifier


def render(f, rng=None):
    """Abstract file -> (text, {byte position: site}). Terminal identifiers map both the `$` and the name position."""
    out = []
    pos = {}
    cur = [0]

    def emit(s):
        out.append(s)
        cur[0] += len(s.encode("utf-8"))

    def ident(name, site, dollar=False):
        if dollar:
            pos[cur[0]] = site
            emit("$")
        pos[cur[0]] = site
        emit(name)

    def sep():
        emit(rng.choice([" ", "\n", "  ", " // é\n", "\t"]) if rng else " ")

    def fieldset(i, j, v):
        if v["style"] == "empty":
            return
        op, cl = ("{", "}") if v["style"] == "named" else ("(", ")")
        sep()
        emit(op)
        for k, fld in enumerate(v["fields"], 1):
            sep()
            if v["style"] == "named":
                if fld["fname"] == "_":
                    emit("_")
                else:
                    ident(fld["fname"], ["fname", i, j, k])
                emit(":")
                sep()
            elif fld["fname"] == "_":
                emit("_:")
                sep()
            ident(fld["sym"], ["fsym", i, j, k], dollar=fld["dollar"])
        sep()
        emit(cl)

    items = []
    for i, n in enumerate(f["starts"], 1):
        items.append(("start", i))
    for i, _ in enumerate(f["tenums"], 1):
        items.append(("tenum", i))
    for i, _ in enumerate(f["nts"], 1):
        items.append(("nt", i))
    if rng:
        # any interleaving that keeps the relative order inside each category (the order validate_ast iterates in)
        cats = {"start": [x for x in items if x[0] == "start"], "tenum": [x for x in items if x[0] == "tenum"], "nt": [x for x in items if x[0] == "nt"]}
        items = []
        while any(cats.values()):
            c = rng.choice([k for k, v in cats.items() if v])
            items.append(cats[c].pop(0))
    for kind, i in items:
        if kind == "start":
            emit("start")
            sep()
            ident(f["starts"][i - 1], ["start", i, 0, 0])
        elif kind == "tenum":
            t = f["tenums"][i - 1]
            emit("terminal")
            sep()
            ident(t["name"], ["tenum", i, 0, 0])
            sep()
            emit("{")
            for j, v in enumerate(t["vars"], 1):
                sep()
                ident(v, ["tvar", i, j, 0], dollar=True)
                emit(":")
                sep()
                emit(rng.choice(["()", "u32", "a::B<C, ()>"]) if rng else "()")
            sep()
            emit("}")
        else:
            n = f["nts"][i - 1]
            emit(n["kind"])
            sep()
            ident(n["name"], ["nt", i, 0, 0])
            if n["kind"] == "struct":
                fieldset(i, 1, n["vars"][0])
            else:
                sep()
                emit("{")
                for j, v in enumerate(n["vars"], 1):
                    sep()
                    ident(v["vname"], ["var", i, j, 0])
                    fieldset(i, j, v)
                sep()
                emit("}")
        emit("\n")
    return "".join(out), pos


def observed(res, posmap):
    """kv result -> the record ValidateJudge expects, or (None, reason)."""
    if res["t"] == "ok":
        return {"v": "ok", "name": "", "syms": [], "pos": []}, None
    if res["t"] != "err":
        return None, "generate did not return: %s" % json.dumps(res)[:200]
    e = res["err"]
    if e["v"] == "TableConflict":
        return {"v": "TableConflict", "name": "", "syms": [], "pos": []}, None
    if e["v"] in ("Lex", "Parse"):
        return None, "front-end error on a rendered abstract file (rendering problem?): %r" % e
    sites = []
    for p in e.get("pos", []):
        if p not in posmap:
            return None, "reported byte position %d is not the position of any identifier" % p
        sites.append(posmap[p])
    return {"v": e["v"], "name": e.get("name", ""), "syms": e.get("symbols", []), "pos": sites}, None


def judge(records, wd, run, shards=6, tag="vobs"):
    shards = max(1, min(shards, len(records) // 200 + 1))
    parts = [records[s::shards] for s in range(shards)]

    def one(args):
        s, part = args
        path = os.path.join(wd, "%s_%d.ndjson" % (tag, s))
        with open(path, "w") as f:
            for rec in part:
                f.write(json.dumps(rec) + "\n")
        return common.tlc("ValidateJudge", env={"OBS": path}, workers=1, timeout=3000, xmx="3g")
    with cf.ThreadPoolExecutor(max_workers=shards) as ex:
        results = list(ex.map(one, list(enumerate(parts))))
    verdicts = {}
    for r in results:
        if r.error:
            raise ToolError("ValidateJudge failed:\n" + r.error)
        run.add_tlc(r)
        for j in r.tagged("VJUDGE"):
            verdicts[j["id"]] = j
        pools = r.tagged("NAMEPOOLS")[0]
        if sorted(pools["upper"]) != sorted(UPPER) or sorted(pools["lower"]) != sorted(LOWER) or sorted(set(pools["none"]) - {"_"}) != sorted(NOLETTER):
            raise ToolError("name pools of ValidateJudge.tla and lib/validate.py differ")
    if len(verdicts) != len(records):
        raise ToolError("ValidateJudge judged %d of %d" % (len(verdicts), len(records)))
    return verdicts


def random_file(rng):
    names = UPPER * 2 + LOWER + NOLETTER
    nts_n = rng.randint(1, 4)
    nt_names = [rng.choice(UPPER if rng.random() < 0.85 else names) for _ in range(nts_n)]
    t_names = [rng.choice(UPPER if rng.random() < 0.85 else names) for _ in range(rng.randint(0, 4))]

    def sym():
        if rng.random() < 0.5:
            n = rng.choice(t_names + nt_names) if rng.random() < 0.8 and (t_names + nt_names) else rng.choice(names)
            return n, (rng.random() < 0.85) == (n in t_names)
        n = rng.choice(nt_names + t_names) if rng.random() < 0.8 else rng.choice(names)
        return n, (rng.random() < 0.15) == (n in nt_names)

    def var(vname):
        style = rng.choice(["named", "tuple", "empty"])
        fields = []
        if style != "empty":
            for _ in range(rng.randint(1, 3)):
                s, d = sym()
                if style == "named":
                    fn = "_" if rng.random() < 0.25 else rng.choice(LOWER if rng.random() < 0.85 else names)
                else:
                    fn = "_" if rng.random() < 0.25 else ""
                fields.append({"fname": fn, "sym": s, "dollar": d})
        return {"vname": vname, "style": style, "fields": fields}
    nts = []
    for n in nt_names:
        if rng.random() < 0.5:
            nts.append({"kind": "struct", "name": n, "vars": [var("")]})
        else:
            # variant names from a small sub-pool, so that equal names (adjacent or not) are frequent
            vpool = rng.sample(UPPER, 3) + [rng.choice(names)]
            nts.append({"kind": "enum", "name": n, "vars": [var(rng.choice(vpool)) for _ in range(rng.randint(0, 4))]})
    starts = [rng.choice(nt_names if rng.random() < 0.85 else names) for _ in range(rng.choice([1, 1, 1, 1, 0, 2]))]
    tenums = [{"name": rng.choice(UPPER if rng.random() < 0.85 else names), "vars": t_names}] * rng.choice([1, 1, 1, 1, 0, 2])
    tenums = [dict(t) for t in tenums]
    return {"starts": starts, "tenums": tenums, "nts": nts}


def vcase(why, f, src, res):
    return {"kind": "validate", "why": "C10: " + why, "file": f, "src": src, "observed": res,
            "judged_by": "spec/Validate.tla (Truthful / HasViolation) via ValidateJudge"}


def run_and_judge(files, rng, wd, run, tag):
    rendered = [render(f, rng) for f in files]
    resps = common.kv("gen", [{"id": i, "src": s, "want": []} for i, (s, _) in enumerate(rendered)], timeout=3000)
    records = []
    for i, (f, (src, posmap), o) in enumerate(zip(files, rendered, resps)):
        run.evaluations += 1
        obs, why = observed(o["res"], posmap)
        if obs is None:
            run.violation(vcase(why, f, src, o["res"]))
            continue
        records.append({"id": i, "f": f, "res": obs})
    verdicts = judge(records, wd, run, tag=tag)
    classes = set()
    for rec in records:
        j = verdicts[rec["id"]]
        run.traces += 1
        if not j["ok"]:
            src = rendered[rec["id"]][0]
            run.violation(vcase(j["why"] + " (reported: %s)" % json.dumps(rec["res"]), files[rec["id"]], src, resps[rec["id"]]["res"]))
        classes.add((rec["res"]["v"], j["bad"]))
    return classes, records


def check(prop, tier, seed):
    run = common.Run(prop, tier, seed)
    wd = common.workdir("validate_%s" % tier)
    common.build_harness()
    rng = random.Random(seed * 29 + 5)
    r = common.tlc("MC_Validate", env={"DEPTH": 2, "PRINT": "1"}, workers=8, timeout=6000, xmx="8g")
    if r.error:
        raise ToolError("MC_Validate: Run(f) is not sound w.r.t. Truthful/HasViolation (specification defect):\n" + r.error)
    run.add_tlc(r)
    if tier == "thorough":
        r3 = common.tlc("MC_Validate", env={"DEPTH": 3, "PRINT": "0"}, workers=12, timeout=20000, xmx="16g")
        if r3.error:
            raise ToolError("MC_Validate depth 3:\n" + r3.error)
        run.add_tlc(r3)
    files = [c["f"] for c in r.tagged("FILE")]
    classes, records = run_and_judge(files, rng, wd, run, "vobs")
    # violation sets seen (distinct non-trivial: distinct reported error variants x whether several violations were present)
    multi = set()
    for c, rec in zip(r.tagged("FILE"), records):
        pass
    rnd = [random_file(rng) for _ in range(3000 if tier == "quick" else 300000)]
    classes2, _ = run_and_judge(rnd, rng, wd, run, "vobs_rand")
    run.nontrivial = {json.dumps([rec["res"]["v"], rec["res"]["name"], rec["res"]["syms"], len(rec["res"]["pos"])]) for rec in records}
    run.notes["outcome_classes"] = sorted("%s/%s" % (v, "violating" if b else "clean") for v, b in (classes | classes2))
    run.sample({"file": files[len(files) // 2], "src": render(files[len(files) // 2])[0]})
    run.rule = ("distinct reported outcomes (error variant, name, symbol sequence, number of positions) over all files within 2 edits of the base "
                "files; evaluations additionally count seeded random larger files; every outcome judged by TLC (Truthful / HasViolation)")
    run.exhaustive = True
    run.assumptions = ["TLC/CommunityModules", "rendering abstract file -> text with an exact occurrence<->byte map (a Lex/Parse error on a rendering is reported)",
                       "capitalisation classes of names are fixed by the pools in the specification"]
    return run.finish()


def replay(prop, path):
    case = json.load(open(path))
    run = common.Run(prop, "quick", 1)
    wd = common.workdir("validate_replay")
    classes, _ = run_and_judge([case["file"]], None, wd, run, "replay")
    if run.violations:
        print("VIOLATION property=%s replay=%s" % (prop, path))
        return 1
    return 0
