"""Engine `types`: C13 (terminal payload types are reproduced faithfully everywhere they are used).

Design level: MC_Emit (MODE=types): TypeTokens over every type of depth <= 1 (2 197 types) is injective.
Conformance (A): every enumerated type is declared (with seeded random layout and comments inside the type) as the
payload of a terminal that is used in a named struct field, a tuple struct field and an enum variant field; at EVERY use
site of the real emitted module (terminal enum variant, the three fields, the Node enum variant, the try_into_* return
type) the spelling is re-tokenised and compared with the prediction.  (C) deeper seeded random types (depth <= 5) are
judged by TLC (TypeJudge).  A family whose paths resolve (crate::G1<A>, crate::G2<A, B>, crate::m::N, u32, ()) is
additionally compiled with a client asserting TYPE IDENTITY with the declared type.
"""
import json, os, random, re, subprocess
import common, rustparse
from common import ToolError, log
from grammar import FormatDrift

SEPS = ["", " ", "  ", "\n", " // c\n", "\t", " //é\n    "]


def spell(t, rng=None):
    """Kiki source spelling of a type AST with (optional) random layout between tokens."""
    toks = tokens_of(t)
    if rng is None:
        return canonical(t)
    out = ""
    for i, tok in enumerate(toks):
        if i:
            prev = toks[i - 1]
            need = (prev[-1].isalnum() or prev[-1] == "_") and (tok[0].isalnum() or tok[0] == "_")
            sep = rng.choice(SEPS)
            if need and sep == "":
                sep = " "
            # `:` `:` must not be split... `::` is one token already; `:` never appears alone in a type
            out += sep
        out += tok
    return out


def tokens_of(t):
    if t["k"] == "unit":
        return ["(", ")"]
    p = []
    for i, seg in enumerate(t["path"]):
        if i:
            p.append("::")
        p.append(seg)
    if t["k"] == "path":
        return p
    out = p + ["<"]
    for i, a in enumerate(t["args"]):
        if i:
            out.append(",")
        out += tokens_of(a)
    return out + [">"]


def canonical(t):
    """A Rust spelling used only for the type-identity client (rustc decides identity, not this string)."""
    if t["k"] == "unit":
        return "()"
    p = "::".join(t["path"])
    if t["k"] == "path":
        return p
    return p + "<" + ", ".join(canonical(a) for a in t["args"]) + ">"


def grammar_for(types, rng):
    lines = ["start Root", "terminal Tok {"]
    for i, t in enumerate(types):
        lines.append("    $T%d: %s" % (i, spell(t, rng)))
    lines.append("}")
    lines.append("struct Root { n: N u: U e: E }")
    lines.append("struct N { " + " ".join("f%d: $T%d" % (i, i) for i in range(len(types))) + " }")
    lines.append("struct U(" + " ".join("$T%d" % i for i in range(len(types))) + ")")
    lines.append("enum E {")
    for i in range(len(types)):
        lines.append("    V%d($T%d)" % (i, i) if i % 2 == 0 else "    V%d { x: $T%d }" % (i, i))
    lines.append("}")
    return "\n".join(lines) + "\n"


def join_open_angles(text):
    """Lines whose `<` are not closed on the same line are joined with the following ones until they are (`->` and `=>` do
    not count): a type spread over several lines becomes one line, its tokens unchanged."""
    out, cur, depth = [], None, 0
    for ln in text.split("\n"):
        bare = ln.replace("->", "").replace("=>", "")
        d = bare.count("<") - bare.count(">")
        if cur is None:
            if d > 0:
                cur, depth = ln, d
            else:
                out.append(ln)
        else:
            cur += " " + ln.strip()
            depth += d
            if depth <= 0:
                out.append(cur)
                cur = None
    if cur is not None:
        out.append(cur)
    return "\n".join(out)


def use_sites(rust, n):
    """{terminal index: [(site name, emitted type string)]} for the six use sites. The emitted text is read line by line;
    when that fails it is read once more with multi-line types joined (the tokens of a type do not depend on line breaks)."""
    try:
        return use_sites_1(rust, n)
    except FormatDrift:
        return use_sites_1(join_open_angles(rust), n)


def use_sites_1(rust, n):
    items, _ = rustparse.parse_items(rust)
    by = {it["name"]: it for it in items}
    sites = {i: [] for i in range(n)}
    for i in range(n):
        sites[i].append(("terminal enum variant", by["Tok"]["variants"][i]["fields"][0]["ty"]))
        sites[i].append(("named struct field", by["N"]["fields"][i]["ty"]))
        sites[i].append(("tuple struct field", by["U"]["fields"][i]["ty"]))
        sites[i].append(("enum variant field", by["E"]["variants"][i]["fields"][0]["ty"]))
    # Node enum: located through the signature of pop_and_reduce
    m = re.search(r"^fn pop_and_reduce\(states: &mut Vec<\w+>, nodes: &mut Vec<(\w+)>", rust, re.M)
    if not m:
        raise FormatDrift("pop_and_reduce not found")
    node = m.group(1)
    mm = re.search(r"^enum %s \{\n(.*?)^\}" % re.escape(node), rust, re.S | re.M)
    if not mm:
        raise FormatDrift("node enum not found")
    for ln in mm.group(1).splitlines():
        v = re.match(r"^    T(\d+)\((.*)\),$", ln)
        if v:
            sites[int(v.group(1))].append(("node enum variant", v.group(2)))
    for v in re.finditer(r"^    fn try_into_t(\d+)_(\d+)\(self\) -> Result<(.*), Self> \{$", rust, re.M):
        if v.group(1) == v.group(2):
            sites[int(v.group(1))].append(("try_into return type", v.group(3)))
    for i in range(n):
        if len(sites[i]) != 6:
            raise FormatDrift("expected 6 use sites for terminal T%d, found %d" % (i, len(sites[i])))
    return sites


def random_type(rng, depth, resolvable):
    if resolvable:
        k = rng.random()
        if depth <= 0 or k < 0.35:
            return rng.choice([{"k": "unit", "path": [], "args": []}, {"k": "path", "path": ["u32"], "args": []},
                               {"k": "path", "path": ["crate", "m", "N"], "args": []}, {"k": "path", "path": ["crate", "Q"], "args": []}])
        if k < 0.7:
            return {"k": "app", "path": ["crate", "G1"], "args": [random_type(rng, depth - 1, True)]}
        return {"k": "app", "path": rng.choice([["crate", "G2"], ["crate", "m", "H2"]]), "args": [random_type(rng, depth - 1, True), random_type(rng, depth - 1, True)]}
    idents = ["a", "B", "c9", "_x", "Vec", "std", "T__"]
    k = rng.random()
    if depth <= 0 or k < 0.3:
        if rng.random() < 0.2:
            return {"k": "unit", "path": [], "args": []}
        return {"k": "path", "path": [rng.choice(idents) for _ in range(rng.randint(1, 4))], "args": []}
    return {"k": "app", "path": [rng.choice(idents) for _ in range(rng.randint(1, 3))],
            "args": [random_type(rng, depth - 1, False) for _ in range(rng.randint(1, 4))]}


def vcase(why, src, **kw):
    return dict({"kind": "type", "why": "C13: " + why, "src": src, "judged_by": "spec/Emit.tla (TypeTokens)"}, **kw)


IDENTITY_PRELUDE = """#![allow(warnings)]
pub struct G1<A>(pub A);
pub struct G2<A, B>(pub A, pub B);
pub struct Q;
pub mod m { pub struct N; pub struct H2<A, B>(pub A, pub B); }
"""


def check(prop, tier, seed):
    run = common.Run(prop, tier, seed)
    wd = common.workdir("types_%s" % tier)
    common.build_harness()
    rng = random.Random(seed * 41 + 9)
    r = common.tlc("MC_Emit", env={"MODE": "types"}, workers=4, timeout=900)
    if r.error:
        raise ToolError("MC_Emit types: TypeTokens is not injective (specification defect):\n" + r.error)
    run.add_tlc(r)
    preds = r.tagged("TYPE")
    rng.shuffle(preds)
    per = 20
    groups = [preds[i:i + per] for i in range(0, len(preds), per)]
    srcs = [grammar_for([p["t"] for p in g], rng) for g in groups]
    resps = common.kv("gen", [{"id": i, "src": s, "want": ["rust"]} for i, s in enumerate(srcs)], timeout=1800)
    for g, src, o in zip(groups, srcs, resps):
        if o["res"]["t"] != "ok":
            # C13 speaks about what IS emitted; whether this file should have been accepted is C09/C10's business
            run.notes["type_grammars_rejected_by_generate"] = run.notes.get("type_grammars_rejected_by_generate", 0) + 1
            continue
        sites = use_sites(o["res"]["rust"], len(g))
        for i, p in enumerate(g):
            run.evaluations += 1
            run.traces += 1
            for name, s in sites[i]:
                got = rustparse.type_tokens(s)
                if got != p["tokens"]:
                    run.violation(vcase("type of $T%d at the %s is spelled %r (tokens %r), declared tokens %r" % (i, name, s, got, p["tokens"]), src, type=p["t"]))
                    break
            if p["t"]["k"] == "app":
                run.nontrivial.add(json.dumps(p["t"], sort_keys=True))
    run.sample({"src": srcs[0][:600], "type": groups[0][0]["t"], "predicted_tokens": groups[0][0]["tokens"]})
    # (C) deeper random types judged by TLC
    deep = [random_type(rng, rng.randint(2, 5), False) for _ in range(400 if tier == "quick" else 60000)]
    # one-dimension scale: nesting depth 40-120, paths of 60 segments, 50 arguments
    def chain(d):
        t = {"k": "path", "path": ["Leaf"], "args": []}
        for i in range(d):
            t = {"k": "app", "path": ["W%d" % (i % 7)], "args": [t] if i % 3 else [{"k": "unit", "path": [], "args": []}, t]}
        return t
    deep += [chain(d) for d in ((40, 41) if tier == "quick" else (40, 41, 80, 120))]
    deep += [{"k": "path", "path": ["s%d" % i for i in range(60)], "args": []},
             {"k": "app", "path": ["Many"], "args": [{"k": "path", "path": ["A%d" % i], "args": []} for i in range(50)]}]
    dgroups = [deep[i:i + per] for i in range(0, len(deep), per)]
    dsrcs = [grammar_for(g, rng) for g in dgroups]
    dresps = common.kv("gen", [{"id": i, "src": s, "want": ["rust"]} for i, s in enumerate(dsrcs)], timeout=1800)
    recs = []
    where = {}
    for g, src, o in zip(dgroups, dsrcs, dresps):
        if o["res"]["t"] != "ok":
            run.notes["type_grammars_rejected_by_generate"] = run.notes.get("type_grammars_rejected_by_generate", 0) + 1
            continue
        sites = use_sites(o["res"]["rust"], len(g))
        for i, t in enumerate(g):
            rid = len(recs)
            recs.append({"id": rid, "t": t, "sites": [{"site": n, "tokens": rustparse.type_tokens(s)} for n, s in sites[i]]})
            where[rid] = (src, t)
    opath = os.path.join(wd, "type_obs.ndjson")
    with open(opath, "w") as f:
        for rec in recs:
            f.write(json.dumps(rec) + "\n")
    rj = common.tlc("TypeJudge", env={"OBS": opath}, workers=1, timeout=3000, xmx="3g")
    if rj.error:
        raise ToolError("TypeJudge failed:\n" + rj.error)
    run.add_tlc(rj)
    for j in rj.tagged("TJUDGE"):
        run.evaluations += 1
        run.traces += 1
        if not j["ok"]:
            src, t = where[j["id"]]
            run.violation(vcase(j["why"], src, type=t))
        elif j["ntokens"] >= 8:
            run.nontrivial.add("deep:%d" % j["id"])
    # type identity with rustc for a resolvable family
    res_types = [random_type(rng, rng.randint(1, 4), True) for _ in range(60 if tier == "quick" else 3000)]
    rgroups = [res_types[i:i + per] for i in range(0, len(res_types), per)]
    rsrcs = [grammar_for(g, rng) for g in rgroups]
    rresps = common.kv("gen", [{"id": i, "src": s, "want": ["rust"]} for i, s in enumerate(rsrcs)], timeout=1800)
    cdir = os.path.join(wd, "identity")
    os.makedirs(cdir)
    main = [IDENTITY_PRELUDE]
    for k, (g, src, o) in enumerate(zip(rgroups, rsrcs, rresps)):
        if o["res"]["t"] != "ok":
            run.notes["type_grammars_rejected_by_generate"] = run.notes.get("type_grammars_rejected_by_generate", 0) + 1
            continue
        with open(os.path.join(cdir, "g%d.rs" % k), "w") as f:
            f.write(o["res"]["rust"])
        main.append("mod g%d;" % k)
        body = []
        pat_n = ", ".join("f%d" % i for i in range(len(g)))
        body.append("    let g%d::N { %s } = n;" % (k, pat_n))
        for i, t in enumerate(g):
            body.append("    let _: %s = f%d;" % (canonical(t), i))
        body.append("    let g%d::U(%s) = u;" % (k, ", ".join("u%d" % i for i in range(len(g)))))
        for i, t in enumerate(g):
            body.append("    let _: %s = u%d;" % (canonical(t), i))
        arms = []
        for i, t in enumerate(g):
            arms.append(("g%d::E::V%d(x)" % (k, i) if i % 2 == 0 else "g%d::E::V%d { x }" % (k, i)) + " => { let _: %s = x; }" % canonical(t))
        body.append("    match e { %s }" % " ".join(arms))
        tarms = " ".join("g%d::Tok::T%d(x) => { let _: %s = x; }" % (k, i, canonical(t)) for i, t in enumerate(g))
        body.append("    match t { %s }" % tarms)
        main.append("fn identity_g%d(n: g%d::N, u: g%d::U, e: g%d::E, t: g%d::Tok) {\n%s\n}" % (k, k, k, k, k, "\n".join(body)))
    main.append("fn main() {}")
    with open(os.path.join(cdir, "main.rs"), "w") as f:
        f.write("\n".join(main))
    p = subprocess.run(["rustc", "--edition", "2021", "--emit=metadata", "-o", os.path.join(cdir, "out.rmeta"), "main.rs"],
                       cwd=cdir, capture_output=True, text=True, timeout=1800)
    run.evaluations += len(res_types)
    if p.returncode != 0:
        bad = sorted(set(int(x) for x in re.findall(r"\bg(\d+)(?:\.rs|::)", p.stderr)))
        for k in bad[:5] or [0]:
            run.violation(vcase("the emitted types do not denote the declared Rust types (rustc): %s" % p.stderr[:700], rsrcs[k]))
    else:
        run.traces += len(res_types)
    run.notes["type_identity_checked_by_rustc"] = len(res_types)
    run.rule = "distinct generic payload types (path applied to arguments) whose six use sites in the real emitted module were re-tokenised and compared; deep:* = random types with >= 8 tokens judged by TLC"
    run.exhaustive = True
    run.assumptions = ["TLC/CommunityModules", "rustc for type identity", "the six use sites are located structurally in the emitted text (FormatDrift = tool error)"]
    return run.finish()


def replay(prop, path):
    case = json.load(open(path))
    o = common.kv("gen", [{"id": 0, "src": case["src"], "want": ["rust"]}])[0]
    if o["res"]["t"] != "ok":
        return 0
    n = len(re.findall(r"^    \$T\d+:", case["src"], re.M))
    sites = use_sites(o["res"]["rust"], n)
    # the declared tokens are recovered from the replay's own type when present; otherwise all sites must agree with each other
    bad = False
    for i in range(n):
        toks = [rustparse.type_tokens(s) for _, s in sites[i]]
        if any(t != toks[0] for t in toks):
            bad = True
    if "type" in case:
        exp = tokens_of(case["type"])
        if not any([rustparse.type_tokens(s) for _, s in sites[i]] == [exp] * 6 for i in range(n)):
            bad = True
    if bad:
        print("VIOLATION property=%s replay=%s" % (prop, path))
        return 1
    return 0
