"""Engine `lexer`: C08 (tokenisation exactly per the documented lexical rules).

Design level: MC_Lexer - the tokenizer state machine (Lexer.tla/LexCore.tla, mirroring tokenize.rs) agrees with the
declarative longest-match definition (LexRef.tla) on every source of at most K atoms; byte-accounting invariant.
Conformance (A): every explored source is tokenised by the real tokenize (tokens: kind, byte span, text) and run
through the real generate (KikiErr::Lex(index, char)) and compared with the prediction.
Conformance (B): per-char traces of longer seeded random sources and of the repository's grammar files, recorded
through the hook, are validated step by step against Lexer.tla (LexTrace) and the final results are judged against
LexRef.tla.
"""
import json, os, random, concurrent.futures as cf
import common
from common import ToolError, log

NONE = 1114112


def cps_to_str(cps):
    return "".join(chr(c) for c in cps)


def mc_cases(k, atoms, wd, run, workers=8):
    r = common.tlc("MC_Lexer", env={"K": k, "ATOMS": atoms, "PRINT": "1"}, workers=workers, timeout=6000, xmx="8g")
    if r.error:
        raise ToolError("MC_Lexer found a disagreement between Lexer.tla and LexRef.tla (specification defect):\n" + r.error)
    run.add_tlc(r)
    return r.tagged("LEX")


def observe(srcs, want_events=False, timeout=1800):
    reqs = [{"id": i, "src": s, "want": (["lexev"] if want_events else [])} for i, s in enumerate(srcs)]
    toks = common.kv("tokenize", reqs, timeout=timeout)
    gens = common.kv("gen", [{"id": i, "src": s, "want": []} for i, s in enumerate(srcs)], timeout=timeout)
    return toks, gens


def compare(src, pred, tok, gen):
    """pred: {res:{t,i,c}, out:[{k,s,l}], errs:[...]} from the specification. Returns None or a reason."""
    tr = tok["res"]
    if tr["t"] == "panic":
        return "tokenize panicked: %s at %s" % (tr["msg"], tr["loc"])
    if tr["t"] == "hang":
        return "tokenize did not return"
    b = src.encode("utf-8")
    if pred["res"]["t"] == "ok":
        if tr["t"] != "ok":
            return "lexically valid text rejected: %s" % json.dumps(tr["err"])
        got = [(t["k"], t["s"], t["l"]) for t in tr["tokens"]]
        exp = [(t["k"], t["s"], t["l"]) for t in pred["out"]]
        if got != exp:
            return "token stream differs: expected %r, got %r" % (exp, got)
        for t in tr["tokens"]:
            if t["text"] is not None and t["text"].encode("utf-8") != b[t["s"]:t["s"] + t["l"]]:
                return "token text %r is not the source slice %r" % (t["text"], b[t["s"]:t["s"] + t["l"]])
        gr = gen["res"]
        if gr["t"] == "err" and gr["err"]["v"] == "Lex":
            return "generate reports a lexical error on lexically valid text"
        return None
    # predicted error: any member of the admissible set
    adm = {(e["i"], e["c"]) for e in pred["errs"]}
    if tr["t"] == "ok":
        return "lexically invalid text tokenised; admissible reports %r" % sorted(adm)
    e = tr["err"]
    if e["v"] != "Lex" or (e["i"], e["c"]) not in adm:
        return "wrong lexical error %r; admissible reports %r" % (e, sorted(adm))
    gr = gen["res"]
    if gr["t"] != "err" or gr["err"]["v"] != "Lex" or (gr["err"]["i"], gr["err"]["c"]) not in adm:
        return "generate does not report the lexical error: %r" % (gr,)
    return None


ALPHABET = ["a", "Z", "9", "_", "x_1", "start", "struct", "enum", "terminal", "$", "$A", ":", "::", ",", "(", ")", "{", "}",
            "<", ">", "[", "]", "#", "#[", "#[a(b)]", "/", "//", " ", "\t", "\n", "\r\n", "\r", " ", "　", "\u0085",
            " ", "​", "é", "€", "😀", "\"", "!", "=", "$_", "$start", "//é€😀\n", "#[doc = \"é€😀\"]", "#[a{(]})]",
            "   ", "\n\n", "$T9_x"]


def random_source(rng, corpus):
    if rng.random() < 0.5 and corpus:
        s = list(rng.choice(corpus))
        for _ in range(rng.randint(0, 3)):
            pos = rng.randint(0, len(s))
            op = rng.random()
            if op < 0.6:
                s[pos:pos] = list(rng.choice(ALPHABET))
            elif op < 0.8 and pos < len(s):
                del s[pos:pos + rng.randint(1, 3)]
            elif pos < len(s):
                s[pos:pos + 1] = list(rng.choice(ALPHABET))
        return "".join(s)
    return "".join(rng.choice(ALPHABET) + rng.choice(["", " ", "", "\n"]) for _ in range(rng.randint(1, 60)))


def repo_sources():
    out = []
    for root in ("/repo/kiki/src", "/repo/kiki_e2e_test/src"):
        for d, _, fs in os.walk(root):
            for f in sorted(fs):
                if f.endswith(".kiki"):
                    out.append(open(os.path.join(d, f), encoding="utf-8").read())
    return sorted(out)


def trace_lines(case_id, src, tok):
    """LexTrace.tla vocabulary: src, ch* , end."""
    lines = [{"ev": "src", "id": case_id, "n": len(src)}]
    for e in tok.get("events", []):
        if e["ev"] == "ch":
            lines.append(e)
    tr = tok["res"]
    if tr["t"] == "ok":
        lines.append({"ev": "end", "t": "ok", "i": 0, "c": 0, "out": [{"k": t["k"], "s": t["s"], "l": t["l"]} for t in tr["tokens"]]})
    elif tr["t"] == "err" and tr["err"]["v"] == "Lex":
        lines.append({"ev": "end", "t": "err", "i": tr["err"]["i"], "c": tr["err"]["c"], "out": []})
    else:
        return None
    return lines


def validate_traces(srcs, toks, wd, run, shards=6):
    per = []
    for i, (s, t) in enumerate(zip(srcs, toks)):
        ls = trace_lines(i, s, t)
        if ls is not None:
            per.append((i, ls))
    shards = max(1, min(shards, len(per)))
    parts = [per[s::shards] for s in range(shards)]

    def one(args):
        s, part = args
        path = os.path.join(wd, "lextrace_%d.ndjson" % s)
        with open(path, "w") as f:
            for _, ls in part:
                for ln in ls:
                    f.write(json.dumps(ln) + "\n")
        return common.tlc("LexTrace", env={"TRACE": path}, workers=1, timeout=3000, deque=True, xmx="3g")
    with cf.ThreadPoolExecutor(max_workers=shards) as ex:
        results = list(ex.map(one, list(enumerate(parts))))
    rejected = []
    nev = 0
    for part, r in zip(parts, results):
        run.add_tlc(r)
        nev += sum(len(ls) for _, ls in part)
        if r.tagged_raw("TRACE-ACCEPTED"):
            run.traces += len(part)
            continue
        rej = r.tagged_raw("TRACE-REJECTED")
        if not rej:
            raise ToolError("LexTrace neither accepted nor rejected:\n" + (r.error or r.out[-2000:]))
        import re
        lineno = int(re.match(r'^<<"TRACE-REJECTED", (\d+)', rej[0]).group(1))
        acc = 0
        for i, ls in part:
            if lineno <= acc + len(ls):
                rejected.append((i, ls[lineno - acc - 1]))
                break
            acc += len(ls)
            run.traces += 1
    run.notes["trace_events_validated"] = run.notes.get("trace_events_validated", 0) + nev
    return rejected


def judge_results(srcs, toks, gens, wd, run, shards=6):
    """End-state conformance for sources beyond the exhaustive universe: TLC evaluates LexRef!Admissible on each
    (source, observed result). Returns {index: verdict}."""
    recs = []
    for i, (s, t) in enumerate(zip(srcs, toks)):
        tr = t["res"]
        if tr["t"] == "ok":
            rec = {"id": i, "src": [ord(c) for c in s], "t": "ok", "i": 0, "c": 0,
                   "out": [{"k": x["k"], "s": x["s"], "l": x["l"]} for x in tr["tokens"]]}
        elif tr["t"] == "err" and tr["err"]["v"] == "Lex":
            rec = {"id": i, "src": [ord(c) for c in s], "t": "err", "i": tr["err"]["i"], "c": tr["err"]["c"], "out": []}
        else:
            continue
        recs.append(rec)
    shards = max(1, min(shards, len(recs)))
    parts = [recs[s::shards] for s in range(shards)]

    def one(args):
        s, part = args
        path = os.path.join(wd, "lexobs_%d.ndjson" % s)
        with open(path, "w") as f:
            for rec in part:
                f.write(json.dumps(rec) + "\n")
        return common.tlc("LexJudge", env={"OBS": path}, workers=1, timeout=3000, xmx="3g")
    with cf.ThreadPoolExecutor(max_workers=shards) as ex:
        results = list(ex.map(one, list(enumerate(parts))))
    verdicts = {}
    for r in results:
        if r.error:
            raise ToolError("LexJudge failed:\n" + r.error)
        run.add_tlc(r)
        for j in r.tagged("LJUDGE"):
            verdicts[j["id"]] = j
    if len(verdicts) != len(recs):
        raise ToolError("LexJudge judged %d of %d" % (len(verdicts), len(recs)))
    return verdicts


def vcase(src, why, pred=None, observed=None):
    return {"kind": "lex", "why": "C08: " + why, "src": src, "src_code_points": [ord(c) for c in src],
            "predicted": pred, "observed": observed, "judged_by": "spec/LexRef.tla (RefLex / Admissible), spec/Lexer.tla"}


def check(prop, tier, seed):
    run = common.Run(prop, tier, seed)
    wd = common.workdir("lexer_%s" % tier)
    common.build_harness()
    # design level + replay set
    cases = mc_cases(3, "all", wd, run)
    # character sweep: context, one character, context - every ASCII character, every Unicode White_Space character and its
    # neighbours, in every lexical context (MC_Lexer, ATOMS = "sweep")
    cases += mc_cases(3, "sweep", wd, run)
    if tier == "thorough":
        cases += mc_cases(5, "core", wd, run)
    srcs = [cps_to_str(c["src"]) for c in cases]
    toks, gens = observe(srcs)
    kinds = set()
    for c, s, t, g in zip(cases, srcs, toks, gens):
        run.evaluations += 1
        run.traces += 1
        why = compare(s, c, t, g)
        if why:
            run.violation(vcase(s, why, pred={"res": c["res"], "out": c["out"], "errs": c["errs"]}, observed=t["res"]))
        if c["res"]["t"] == "ok":
            for tk in c["out"]:
                kinds.add(("tok", tk["k"]))
        else:
            kinds.add(("err", c["res"]["c"] if c["res"]["c"] < 128 or c["res"]["c"] == NONE else "multibyte"))
    run.sample({"src": srcs[len(srcs) // 2], "predicted": cases[len(cases) // 2]["res"], "tokens": cases[len(cases) // 2]["out"]})
    # (B) longer random sources + repository files: step-level trace validation and end-state judgement
    rng = random.Random(seed * 13 + 1)
    corpus = repo_sources()
    longs = list(corpus) + [random_source(rng, corpus) for _ in range(400 if tier == "quick" else 6000)]
    # one-dimension scale: very long single tokens and runs (identifier, terminal identifier, attribute with nested brackets
    # and multi-byte text, comment, whitespace run, digits after an identifier start), alone and inside a small file
    n = 1200 if tier == "quick" else 5000
    giants = ["a" * n, "$" + "Z9_" * (n // 3), "#[" + "a(é[€{😀}])" * (n // 10) + "]", "// " + "é€😀 " * (n // 4), " \t\u00a0\u3000\u2003" * (n // 5),
              "_" * n, "x" + "0123456789" * (n // 10), "#[" + "(" * n + ")" * n + "]", "#[" + "(" * n, ":" * n, "start" * (n // 5)]
    longs += giants + ["start S\n" + g + "\nstruct S { a: $A }\nterminal T { $A: () }\n" for g in giants[:5]]
    toks2 = common.kv("tokenize", [{"id": i, "src": s, "want": ["lexev"]} for i, s in enumerate(longs)], timeout=1800)
    gens2 = common.kv("gen", [{"id": i, "src": s, "want": []} for i, s in enumerate(longs)], timeout=1800)
    verdicts = judge_results(longs, toks2, gens2, wd, run)
    transitions = set()
    for i, (s, t, g) in enumerate(zip(longs, toks2, gens2)):
        run.evaluations += 1
        tr = t["res"]
        if tr["t"] in ("panic", "hang"):
            run.violation(vcase(s, "tokenize did not return a result: %s" % json.dumps(tr)[:200], observed=tr))
            continue
        j = verdicts.get(i)
        if j is None:
            run.violation(vcase(s, "tokenize returned a non-lexical error: %s" % json.dumps(tr)[:200], observed=tr))
            continue
        if not j["ok"]:
            run.violation(vcase(s, j["why"], pred=j.get("expect"), observed=tr))
        gr = g["res"]
        if tr["t"] == "err" and not (gr["t"] == "err" and gr["err"] == tr["err"]):
            run.violation(vcase(s, "generate does not return the tokenizer's lexical error", observed=gr))
        if tr["t"] == "ok" and gr["t"] == "err" and gr["err"]["v"] == "Lex":
            run.violation(vcase(s, "generate reports a lexical error on text the tokenizer accepts", observed=gr))
        for e in t.get("events", []):
            c = e["c"]
            if c == NONE:
                cls = "eof"
            else:
                ch = chr(c)
                cls = ("ws" if ch.isspace() else "alpha" if c < 128 and ch.isalpha() else "digit" if c < 128 and ch.isdigit()
                       else "multibyte" if c >= 128 else ch)
            transitions.add((e["st"], cls))
    rejected = validate_traces(longs, toks2, wd, run)
    for i, ev in rejected:
        print("CONFORMANCE-DRIFT property=C08 the real tokenizer's recorded state differs from Lexer.tla at %s" % json.dumps(ev)[:200])
        # a state drift inside the tokenizer is only diagnostic unless the result is wrong too (judged above)
    run.notes["trace_drift"] = len(rejected)
    run.notes["token_and_error_kinds_predicted"] = len(kinds)
    run.nontrivial = transitions
    run.rule = ("distinct (tokenizer state kind, character class) transitions taken by the REAL tokenizer in the recorded traces; "
                "evaluations = sources compared (all atom strings of MC_Lexer + seeded random longer sources + repository files)")
    run.exhaustive = True
    run.assumptions = ["TLC / CommunityModules", "atoms universe (MC_Lexer.Atoms), K = 3 (quick), plus core atoms K = 5 (thorough)",
                       "char::is_whitespace is the Unicode White_Space set transcribed in LexCore!WS"]
    return run.finish()


def replay(prop, path):
    case = json.load(open(path))
    src = case["src"]
    run = common.Run(prop, "quick", 1)
    wd = common.workdir("lexer_replay")
    toks, gens = observe([src])
    tr = toks[0]["res"]
    log("observed: %s" % json.dumps(tr)[:500])
    if tr["t"] in ("panic", "hang"):
        print("VIOLATION property=%s replay=%s" % (prop, path))
        return 1
    v = judge_results([src], toks, gens, wd, run, shards=1)
    j = v.get(0)
    log("judge: %s" % json.dumps(j))
    if j is None or not j["ok"]:
        print("VIOLATION property=%s replay=%s" % (prop, path))
        return 1
    return 0
