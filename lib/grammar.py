"""Abstract grammars <-> Kiki source text, and reading tables back out of emitted Rust text.

A grammar is the JSON form of the TLA+ value used by spec/Cfg.tla:
  {"nts": [...], "ts": ["$X", ...], "start": "S", "rules": [{"lhs": "S", "rhs": ["$X", "A"]}, ...]}
Rules of one nonterminal are contiguous. A *presentation* fixes everything Kiki needs beyond the
grammar: struct vs enum, named vs tuple fieldsets, which fields are `_`, names, payload types.
"""
import re
from common import ToolError


def group_rules(G):
    by = {}
    for i, r in enumerate(G["rules"]):
        by.setdefault(r["lhs"], []).append(i)
    # contiguity
    last = {}
    for i, r in enumerate(G["rules"]):
        if r["lhs"] in last and last[r["lhs"]] != i - 1:
            raise ToolError("rules of %s are not contiguous" % r["lhs"])
        last[r["lhs"]] = i
    return by


def nt_order(G):
    """Nonterminals in the order their rules appear, then the rule-less ones in the order of G['nts']."""
    seen = []
    for r in G["rules"]:
        if r["lhs"] not in seen:
            seen.append(r["lhs"])
    for n in G["nts"]:
        if n not in seen:
            seen.append(n)
    return seen


PAYLOADS = ["()", "u32", "crate::P", "Vec<u32>", "Option<crate::P>"]


def present(G, rng, payload="u32"):
    """Seeded random presentation. payload: type used for every terminal, or None for a random mix."""
    by = group_rules(G)
    pres = {"rules": {}, "ttypes": {}, "nts": nt_order(G), "ts": list(G["ts"])}
    for t in G["ts"]:
        pres["ttypes"][t] = payload if payload else rng.choice(PAYLOADS)
    for A in pres["nts"]:
        idxs = by.get(A, [])
        as_struct = len(idxs) == 1 and rng.random() < 0.5
        for vi, i in enumerate(idxs):
            rhs = G["rules"][i]["rhs"]
            style = "empty" if not rhs else rng.choice(["named", "tuple"])
            mask = [rng.random() < 0.7 for _ in rhs]
            # field names: ordinary, starting with an underscore, or without any letter - all legal; only a bare `_` skips
            pres["rules"][i] = dict(struct=as_struct, vname="V%d" % vi, style=style, mask=mask,
                                    fnames=[rng.choice(["f%d", "f%d", "_f%d", "_%d", "__%d"]) % j for j in range(len(rhs))])
    return pres


def canonical_presentation(G):
    """Deterministic presentation: enums everywhere, tuple fieldsets, all fields used, unit payloads."""
    by = group_rules(G)
    pres = {"rules": {}, "ttypes": {t: "()" for t in G["ts"]}, "nts": nt_order(G), "ts": list(G["ts"])}
    for A in pres["nts"]:
        for vi, i in enumerate(by.get(A, [])):
            rhs = G["rules"][i]["rhs"]
            pres["rules"][i] = dict(struct=False, vname="V%d" % vi, style="tuple" if rhs else "empty",
                                    mask=[True] * len(rhs), fnames=["f%d" % j for j in range(len(rhs))])
    return pres


def fieldset_src(G, i, p):
    rhs = G["rules"][i]["rhs"]
    if p["style"] == "empty":
        return ""
    if p["style"] == "named":
        return " { " + " ".join((p["fnames"][j] if p["mask"][j] else "_") + ": " + x for j, x in enumerate(rhs)) + " }"
    return "(" + " ".join(("" if p["mask"][j] else "_: ") + x for j, x in enumerate(rhs)) + ")"


def render(G, pres, tenum="Tok", attrs=True):
    """Kiki source text of grammar G under presentation pres. Symbols are used as they are: terminals already carry `$`."""
    out = ["start %s" % G["start"]]
    if attrs:
        out.append("#[derive(Debug)]")
    out.append("terminal %s {" % tenum)
    for t in pres["ts"]:
        out.append("    %s: %s" % (t, pres["ttypes"][t]))
    out.append("}")
    by = group_rules(G)
    for A in pres["nts"]:
        idxs = by.get(A, [])
        if attrs:
            out.append("#[derive(Debug)]")
        if idxs and pres["rules"][idxs[0]]["struct"]:
            out.append("struct %s%s" % (A, fieldset_src(G, idxs[0], pres["rules"][idxs[0]])))
        else:
            out.append("enum %s {" % A)
            for i in idxs:
                out.append("    %s%s" % (pres["rules"][i]["vname"], fieldset_src(G, i, pres["rules"][i])))
            out.append("}")
    return "\n".join(out) + "\n"


def same_grammar(G, pres, kg):
    """Does the grammar kiki extracted (kv `grammar`) equal G under pres? Returns None or a reason."""
    if kg["start"] != G["start"]:
        return "start differs"
    if kg["nts"] != pres["nts"]:
        return "nonterminal order differs: %r vs %r" % (kg["nts"], pres["nts"])
    if kg["ts"] != pres["ts"]:
        return "terminals differ: %r vs %r" % (kg["ts"], pres["ts"])
    if kg["ttypes"] != [pres["ttypes"][t] for t in pres["ts"]]:
        return "payload types differ"
    if len(kg["rules"]) != len(G["rules"]):
        return "rule count differs"
    for i, (a, b) in enumerate(zip(kg["rules"], G["rules"])):
        p = pres["rules"][i]
        if a["lhs"] != b["lhs"] or a["rhs"] != b["rhs"]:
            return "rule %d differs: %r vs %r" % (i + 1, a, b)
        if a["mask"] != p["mask"] or a["style"] != p["style"]:
            return "rule %d presentation differs" % (i + 1)
        if (a["ctor"] == "struct") != p["struct"]:
            return "rule %d struct/enum differs" % (i + 1)
    return None


def tla_grammar(G):
    """The record handed to TLC (sequences for nts/ts so that column orders are reproducible)."""
    return {"nts": list(G["nts"]), "ts": list(G["ts"]), "start": G["start"],
            "rules": [{"lhs": r["lhs"], "rhs": list(r["rhs"])} for r in G["rules"]]}


# ---------------------------------------------------------------------------------------------
# reading the tables back from the emitted Rust text (independent of the fresh names)
# ---------------------------------------------------------------------------------------------

class FormatDrift(ToolError):
    pass


class MalformedTables(Exception):
    """The emitted text was read without difficulty, but the tables it contains are inconsistent with its own
    declarations (row/column counts). That is a property violation (C17), not a reading problem."""


def _enum_variants(text, name):
    m = re.search(r"^enum %s \{\n(.*?)^\}" % re.escape(name), text, re.S | re.M)
    if not m:
        raise FormatDrift("enum %s not found in emitted text" % name)
    out = []
    for ln in m.group(1).splitlines():
        ln = ln.strip()
        if not ln:
            continue
        mm = re.match(r"^(\w+) = (\d+),$", ln)
        if not mm:
            raise FormatDrift("unexpected line in enum %s: %r" % (name, ln))
        out.append((mm.group(1), int(mm.group(2))))
    for k, (_, idx) in enumerate(out):
        if idx != k:
            raise FormatDrift("enum %s discriminants are not 0..n" % name)
    return [n for n, _ in out]


def extract_tables(text, G_ts_decl, G_nts_decl):
    """Returns {"start", "ts", "nts", "action", "goto"} in the vocabulary of LR1!TablesMatch.
    G_ts_decl / G_nts_decl: declared names ('$X' / 'S') in declaration order, used only to translate the
    kind-enum variant names (which are the bare names) back to grammar symbols."""
    m = re.search(r"^fn get_action\(top_state: (\w+), next_quasiterminal_kind: (\w+)\) -> (\w+) \{\n    (\w+)\[", text, re.M)
    if not m:
        raise FormatDrift("get_action not found")
    state_enum, qk_enum, action_enum, action_tab = m.groups()
    m = re.search(r"^fn get_goto\(top_state: (\w+), new_node_kind: (\w+)\) -> Option<(\w+)> \{\n    (\w+)\[", text, re.M)
    if not m:
        raise FormatDrift("get_goto not found")
    _, nk_enum, _, goto_tab = m.groups()
    m = re.search(r"^fn pop_and_reduce\(states: &mut Vec<\w+>, nodes: &mut Vec<(\w+)>, rule_kind: (\w+)\)", text, re.M)
    if not m:
        raise FormatDrift("pop_and_reduce not found")
    rule_enum = m.group(2)
    qk = _enum_variants(text, qk_enum)
    nk = _enum_variants(text, nk_enum) if G_nts_decl else []
    states = _enum_variants(text, state_enum)
    if len(qk) != len(G_ts_decl) + 1:
        raise FormatDrift("quasiterminal kinds do not match declared terminals")
    ts = []
    for name, decl in zip(qk[:-1], G_ts_decl):
        if "$" + name != decl:
            raise FormatDrift("terminal kind %s does not match declaration %s" % (name, decl))
        ts.append(decl)
    if nk != list(G_nts_decl):
        raise FormatDrift("nonterminal kinds %r do not match declarations %r" % (nk, G_nts_decl))
    m = re.search(r"let mut states = vec!\[%s::S(\d+)\];" % re.escape(state_enum), text)
    if not m:
        raise FormatDrift("start state not found")
    start = int(m.group(1))

    def table_body(name):
        mm = re.search(r"^(?:static|const) %s: \[\[.*?; (\d+)\]; (\d+)\] = \[\n(.*?)^\];" % re.escape(name), text, re.S | re.M)
        if not mm:
            raise FormatDrift("static %s not found" % name)
        return int(mm.group(1)), int(mm.group(2)), mm.group(3)

    cols, rows, body = table_body(action_tab)
    if cols != len(qk) or rows != len(states):
        raise FormatDrift("action table dimensions do not match the enums")
    cells = []
    for ln in body.splitlines():
        ln = ln.strip()
        if ln in ("[", "],", ""):
            continue
        mm = re.match(r"^%s::(Shift\(%s::S(\d+)\)|Reduce\(%s::R(\d+)\)|Accept|Err),$" % (re.escape(action_enum), re.escape(state_enum), re.escape(rule_enum)), ln)
        if not mm:
            raise FormatDrift("unexpected action cell %r" % ln)
        if mm.group(2) is not None:
            cells.append(["s", int(mm.group(2))])
        elif mm.group(3) is not None:
            cells.append(["r", int(mm.group(3)) + 1])
        elif mm.group(1) == "Accept":
            cells.append(["a", 0])
        else:
            cells.append(["e", 0])
    if len(cells) != rows * cols:
        raise MalformedTables("action table has %d cells, its declaration [[_; %d]; %d] promises %d" % (len(cells), cols, rows, rows * cols))
    action = [cells[r * cols:(r + 1) * cols] for r in range(rows)]

    gcols, grows, gbody = table_body(goto_tab)
    if gcols != len(nk) or grows != len(states):
        raise FormatDrift("goto table dimensions do not match the enums")
    gcells = []
    for ln in gbody.splitlines():
        ln = ln.strip()
        if ln in ("[", "],", ""):
            continue
        mm = re.match(r"^(Some\(%s::S(\d+)\)|None),$" % re.escape(state_enum), ln)
        if not mm:
            raise FormatDrift("unexpected goto cell %r" % ln)
        gcells.append(int(mm.group(2)) if mm.group(2) is not None else -1)
    if len(gcells) != grows * gcols:
        raise MalformedTables("goto table has %d cells, its declaration [[_; %d]; %d] promises %d" % (len(gcells), gcols, grows, grows * gcols))
    goto = [gcells[r * gcols:(r + 1) * gcols] for r in range(grows)]
    return {"start": start, "ts": ts, "nts": list(G_nts_decl), "action": action, "goto": goto}


def hook_table(t):
    """kv `table` (from the Table value) in the same vocabulary."""
    return {"start": t["start"], "ts": t["ts"], "nts": t["nts"], "action": t["action"],
            "goto": [[-1 if x is None else x for x in row] for row in t["goto"]]}
