"""Shared plumbing for the check driver: paths, harness build, TLC runner, kv bridge,
evidence writer, violation/replay writer, known findings."""
import hashlib, json, os, re, subprocess, sys, time, shutil

ROOT = os.path.dirname(os.path.dirname(os.path.abspath(__file__)))
SPEC = os.path.join(ROOT, "spec")
WORK = os.path.join(ROOT, "work")
HARNESS = os.path.join(ROOT, "harness")
KV = os.path.join(HARNESS, "target", "release", "kv")
REPO = "/repo"
TLA_CP = "/opt/veriftools/tla/tla2tools.jar:/opt/veriftools/tla/CommunityModules-deps.jar"


class ToolError(Exception):
    """Something in the machinery (not in the code under test) failed: exit status 2."""


def log(*a):
    print(*a, file=sys.stderr, flush=True)


def workdir(name):
    d = os.path.join(WORK, name)
    shutil.rmtree(d, ignore_errors=True)
    os.makedirs(d)
    return d


_built = False


def build_harness():
    """Always rebuild from /repo's current working tree (cargo decides what is stale)."""
    global _built
    if _built:
        return KV
    lock = os.path.join(HARNESS, "Cargo.lock")
    if not os.path.exists(lock):
        shutil.copy(os.path.join(REPO, "Cargo.lock"), lock)
    env = dict(os.environ, CARGO_NET_OFFLINE="true")
    # several checks may run concurrently: cargo serialises on its own build lock
    p = subprocess.run(["cargo", "build", "--release", "--offline", "--quiet"], cwd=HARNESS,
                       env=env, capture_output=True, text=True, timeout=1800)
    if p.returncode != 0:
        raise ToolError("harness build failed (does /repo still compile with feature verif?):\n" + p.stderr[-4000:])
    _built = True
    return KV


def kv(cmd, requests, timeout=600, per_request_timeout=30, args=()):
    """Runs `kv <cmd>` over a list of request dicts; returns the list of response dicts.
    If the process is killed by a signal (stack overflow / abort inside the code under test), the request that was being
    served is answered with {"res": {"t": "abort", ...}} and the remaining requests are served by a fresh process: an abort
    of the code under test is data, not a tool error."""
    build_harness()
    env = dict(os.environ, KV_TIMEOUT_S=str(per_request_timeout))
    out = []
    todo = list(requests)
    deadline = time.time() + timeout
    aborts = 0
    while todo:
        inp = "\n".join(json.dumps(r) for r in todo) + "\n"
        try:
            p = subprocess.run([KV, cmd, *args], input=inp, capture_output=True, text=True,
                               timeout=max(10, deadline - time.time()), env=env)
        except subprocess.TimeoutExpired:
            raise ToolError(f"kv {cmd} did not finish within {timeout}s")
        got = []
        for l in p.stdout.split("\n"):
            if not l.strip():
                continue
            try:
                got.append(json.loads(l))
            except json.JSONDecodeError:
                if p.returncode >= 0:
                    raise ToolError(f"kv {cmd}: undecodable response line {l[:200]!r}")
                break       # a line cut off by the abort
        if p.returncode == 0:
            if len(got) != len(todo):
                raise ToolError(f"kv {cmd}: {len(todo)} requests but {len(got)} responses; stderr: {p.stderr[-1000:]}")
            out += got
            break
        if p.returncode > 0 or len(got) >= len(todo):
            raise ToolError(f"kv {cmd} exited with {p.returncode}: {p.stderr[-2000:]}")
        # killed by a signal while serving request number len(got)
        aborts += 1
        if aborts > 50:
            raise ToolError(f"kv {cmd}: more than 50 aborts in one batch; last stderr: {p.stderr[-500:]}")
        culprit = todo[len(got)]
        out += got
        out.append({"id": culprit.get("id"), "res": {"t": "abort", "signal": -p.returncode, "msg": (p.stderr or "")[-300:]},
                    "panic": {"msg": "process aborted with signal %d" % -p.returncode, "loc": ""}})
        todo = todo[len(got) + 1:]
    if len(out) != len(requests):
        raise ToolError(f"kv {cmd}: {len(requests)} requests but {len(out)} responses")
    for o in out:
        if "tool_error" in o:
            raise ToolError(f"kv {cmd}: {o['tool_error']}")
    return out


class TlcResult:
    def __init__(self, out, rc, wall):
        self.out, self.rc, self.wall = out, rc, wall
        self.generated = self.distinct = 0
        self.depth = 0
        m = None
        for m in re.finditer(r"(\d+) states generated, (\d+) distinct states found", out):
            pass
        if m:
            self.generated, self.distinct = int(m.group(1)), int(m.group(2))
        m = re.search(r"The depth of the complete state graph search is (\d+)", out)
        if m:
            self.depth = int(m.group(1))
        self.error = None
        if "Error:" in out or rc != 0:
            i = out.find("Error:")
            self.error = out[i:i + 3000] if i >= 0 else out[-3000:]

    def tagged(self, tag):
        """Values of PrintT(<<tag, "json">>) lines, JSON-decoded."""
        res = []
        pat = re.compile(r'^<<"' + re.escape(tag) + r'", "(.*)">>$')
        # TLC wraps long values over several lines; join continuation lines first
        for line in self.joined_lines():
            m = pat.match(line)
            if m:
                s = m.group(1).replace('\\"', '"').replace("\\\\", "\\")
                try:
                    res.append(json.loads(s))
                except json.JSONDecodeError as e:
                    raise ToolError(f"cannot decode TLC output for tag {tag}: {e}: {s[:300]}")
        return res

    def tagged_raw(self, tag):
        return [ln for ln in self.joined_lines() if ln.startswith('<<"' + tag + '"')]

    def joined_lines(self):
        lines = self.out.splitlines()
        joined, cur = [], None
        for ln in lines:
            if ln.startswith("<<"):
                if cur is not None:
                    joined.append(cur)
                cur = ln
            elif cur is not None and (ln.startswith(" ") or ln.startswith("\t")) and not cur.endswith(">>"):
                cur += " " + ln.strip()
            else:
                if cur is not None:
                    joined.append(cur)
                    cur = None
                joined.append(ln)
        if cur is not None:
            joined.append(cur)
        return joined

    def coverage(self):
        """Per-action counts from -coverage output: {action: (distinct, total)}."""
        cov = {}
        for m in re.finditer(r"<(\w+) line (\d+), col \d+ to line \d+, col \d+ of module (\w+)(?: \(([\d ]+)\))?>: (\d+):(\d+)", self.out):
            key = m.group(1) if not m.group(4) else m.group(1) + "@" + m.group(4).replace(" ", ".")
            # TLC prints the statistics twice (at the end and in the final summary); keep the larger
            d, t = int(m.group(5)), int(m.group(6))
            if key not in cov or cov[key][1] < t:
                cov[key] = (d, t)
        return cov


def tlc(module, cfg=None, env=None, workers=4, timeout=900, simulate=None, depth=None, seed=None,
        deque=False, xmx="6g", coverage=False, metadir=None, extra=()):
    """Runs TLC on spec/<module>.tla with spec/<cfg>.cfg. Returns TlcResult. Raises ToolError on timeout."""
    cfg = cfg or module
    md = metadir or workdir("tlc_" + cfg + "_" + str(os.getpid()) + "_" + hashlib.md5(json.dumps(env or {}, sort_keys=True).encode()).hexdigest()[:8])
    jopts = "-Xss1g"
    if deque:
        jopts += " -Dtlc2.tool.queue.IStateQueue=StateDeque"
    e = dict(os.environ)
    e.update({k: str(v) for k, v in (env or {}).items()})
    e["JAVA_TOOL_OPTIONS"] = jopts
    cmd = ["java", "-XX:+UseParallelGC", "-Xmx" + xmx, "-cp", TLA_CP, "tlc2.TLC",
           "-workers", str(workers), "-metadir", md, "-cleanup", "-noGenerateSpecTE",
           "-config", cfg + ".cfg"]
    if coverage:
        cmd += ["-coverage", "1"]
    if simulate:
        cmd += ["-simulate", "num=%d" % simulate]
    if depth:
        cmd += ["-depth", str(depth)]
    if seed is not None:
        cmd += ["-seed", str(seed)]
    cmd += list(extra) + [module + ".tla"]
    t0 = time.time()
    try:
        p = subprocess.run(cmd, cwd=SPEC, env=e, capture_output=True, text=True, timeout=timeout)
    except subprocess.TimeoutExpired:
        raise ToolError(f"TLC on {module}/{cfg} did not finish within {timeout}s")
    finally:
        shutil.rmtree(md, ignore_errors=True)
    out = p.stdout + ("\n" + p.stderr if p.stderr.strip() and "Picked up JAVA_TOOL_OPTIONS" not in p.stderr.strip().splitlines()[-1] else "")
    return TlcResult(out, p.returncode, time.time() - t0)


def tlc_ok(module, **kw):
    """Runs TLC and raises ToolError if TLC itself reports an error that is not an invariant/property violation
    the caller wants to handle. Returns the result when TLC finished without any error."""
    r = tlc(module, **kw)
    if r.error:
        raise ToolError(f"TLC reported an error on {module}/{kw.get('cfg') or module}:\n{r.error}")
    return r


# ---------------------------------------------------------------------------------------------
# evidence / violations / known findings
# ---------------------------------------------------------------------------------------------

def load_known():
    p = os.path.join(ROOT, "known_findings.json")
    if not os.path.exists(p):
        return []
    return json.load(open(p))["findings"]


class Run:
    """One check run: collects counts, violations, samples; writes evidence; decides the exit status."""

    def __init__(self, prop, tier, seed):
        self.prop, self.tier, self.seed = prop, tier, seed
        self.t0 = time.time()
        self.states = self.transitions = 0
        self.traces = 0
        self.evaluations = 0
        self.nontrivial = set()
        self.rule = ""
        self.samples = []
        self.assumptions = []
        self.violations = []       # (key, case)
        self.known_hits = {}       # finding id -> count
        self.notes = {}
        self.exhaustive = False
        self.known = [k for k in load_known() if k["property"] == prop and k.get("status") == "open"]

    def add_tlc(self, r):
        self.states += r.distinct
        self.transitions += r.generated

    def sample(self, s, cap=6):
        if len(self.samples) < cap:
            self.samples.append(s)

    def violation(self, case, key=None):
        """case: a JSON-serialisable description with everything needed to replay. Checks the known findings first."""
        for k in self.known:
            if known_matches(k, case):
                self.known_hits[k["id"]] = self.known_hits.get(k["id"], 0) + 1
                return False
        self.violations.append(case)
        return True

    def finish(self):
        wall = time.time() - self.t0
        ev = {
            "property_id": self.prop, "tier": self.tier, "seed": self.seed, "level": "model_checking",
            "coverage": {
                "states": self.states, "transitions": self.transitions,
                "traces_validated_against_impl": self.traces,
                "samples": self.samples or ["<none>"],
                "evaluations": self.evaluations,
                "distinct_nontrivial": len(self.nontrivial),
                "rule": self.rule,
                "exhaustive": self.exhaustive,
            },
            "assumptions": self.assumptions,
            "wall_s": round(wall, 1),
            "violations": len(self.violations),
        }
        ev["coverage"].update(self.notes)
        ev["coverage"]["known_findings_hit"] = self.known_hits
        os.makedirs(os.path.join(ROOT, "evidence"), exist_ok=True)
        with open(os.path.join(ROOT, "evidence", self.prop + ".json"), "w") as f:
            json.dump(ev, f, indent=1, sort_keys=True)
            f.write("\n")
        for k in self.known:
            if self.known_hits.get(k["id"]):
                print(f"KNOWN-FINDING: property={self.prop} {k['what']} ({self.known_hits[k['id']]} cases this run)")
        if self.violations:
            d = os.path.join(ROOT, "replays", self.prop)
            os.makedirs(d, exist_ok=True)
            seen = set()
            # at most 20 replay files, spread over the kinds of violating cases (first come first served within a kind)
            by_kind = {}
            for case in self.violations:
                by_kind.setdefault(str(case.get("kind")), []).append(case)
            chosen = []
            while len(chosen) < 20 and any(by_kind.values()):
                for k in list(by_kind):
                    if by_kind[k] and len(chosen) < 20:
                        chosen.append(by_kind[k].pop(0))
            for case in chosen:
                blob = json.dumps(case, sort_keys=True)
                h = hashlib.sha1(blob.encode()).hexdigest()[:12]
                if h in seen:
                    continue
                seen.add(h)
                path = os.path.join(d, h + ".json")
                with open(path, "w") as f:
                    json.dump(dict(case, property=self.prop, seed=self.seed, tier=self.tier), f, indent=1, sort_keys=True)
                    f.write("\n")
                print(f"VIOLATION property={self.prop} replay={path}")
                why = case.get("why") or case.get("kind") or ""
                log(f"  {why}")
            log(f"{self.prop}: {len(self.violations)} violation(s)")
            return 1
        log(f"{self.prop} {self.tier}: held on everything explored ({self.states} states, {self.traces} traces/replays, {wall:.0f}s)")
        return 0


def known_matches(k, case):
    """A known finding matches a violating case if every (field, regex) of its `match` holds."""
    m = k.get("match") or {}
    if not m:
        return False
    for field, pat in m.items():
        v = case
        for part in field.split("."):
            v = v.get(part) if isinstance(v, dict) else None
        if v is None or not re.search(pat, v if isinstance(v, str) else json.dumps(v)):
            return False
    return True
